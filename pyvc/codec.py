"""Codec engine: contracts W_T / S_T / B_T for every layout (DESIGN.md 6), used (a) as callee contracts at call sites and
(b) as the specification against which each real function body is verified."""
import z3

from . import npmodel
from .core import (And, B, I, If, Implies, Not, Or, OutOfReach, PyRaise, Seq, VBuiltin, VDate, VEnum, VFloat, VList, VObj, VSlice,
                   VStr, conc, eq, is_bool, is_int, rng, zbool, zint)
from .interp import EXC, ClassModel, FuncModel
from .loader import isinf
from .npmodel import NANW, VBytes, VBytesIO, VDType, VInFile, VNd, VRunsList, as_int, isnan, to_bytes
from .stream import (AField, AFold, ALit, APad, ARaw, ASub, AText, ITEMSIZE, InStream, Unaligned, alen, slen, stream_eq_goals)
from .symlayout import SPECS, SymE, layout_atoms, sub_len

from spec.layouts import CLASS_OF

LAYOUT_OF_CLASS = {v: k for k, v in CLASS_OF.items()}


# ------------------------------------------------------------------------------------------------ generic deep comparison
def expect_eq(interp, got, exp, what, guard=True):
    """goals stating that ``got`` (produced by the real code) equals ``exp`` (the contract's value), structurally"""
    ctx = interp.ctx
    G = []

    def add(name, f):
        G.append((name, Implies(guard, f)))
    if isinstance(exp, VEnum):
        if not isinstance(got, VEnum) or got.cls is not exp.cls:
            add(what + ".kind(enum)", False)
        else:
            add(what, eq(got.val, exp.val))
    elif is_int(exp) and not isinstance(exp, bool):
        got = as_int(interp, got)
        if not is_int(got):
            add(what + ".kind(int)", False)
        else:
            add(what, eq(got, exp))
    elif isinstance(exp, VFloat):
        if not isinstance(got, VFloat):
            add(what + ".kind(float)", False)
        else:
            add(what, eq(npmodel.cast_float(got, exp.kind) if got.kind != exp.kind else got.w, exp.w))
    elif isinstance(exp, (VStr, str)):
        if not isinstance(got, (VStr, str)):
            add(what + ".kind(str)", False)
        else:
            a, b = interp.as_seq(got), interp.as_seq(exp)
            add(what + ".len", eq(a.n, b.n))
            k = ctx.fresh_const("chr")
            add(what + ".chars", Implies(rng(0, k, b.n), eq(a.get(k), b.get(k))))
    elif isinstance(exp, VNd):
        if not isinstance(got, VNd):
            add(what + ".kind(ndarray)", False)
        elif exp.fields is not None:
            if got.fields is None or set(got.fields) != set(exp.fields):
                add(what + ".fields", False)
            else:
                for nm in exp.fields:
                    G.extend(expect_eq(interp, got.fields[nm], exp.fields[nm], f"{what}.{nm}", guard))
        elif got.ndim != exp.ndim:
            add(what + f".rank({got.ndim} vs {exp.ndim})", False)
        elif got.dt.kind != exp.dt.kind:
            add(what + f".dtype({got.dt.kind} vs {exp.dt.kind})", False)
        elif exp.dt.kind == "obj":
            # object array of optional cells: same cells present, and equal values where present
            from .symlayout import opt_parts
            for d, (a, b) in enumerate(zip(got.shape, exp.shape)):
                add(f"{what}.shape[{d}]", eq(a, b))
            idx = [ctx.fresh_const(f"ix{d}") for d in range(exp.ndim)]
            inb = And(*[rng(0, i, s) for i, s in zip(idx, exp.shape)])
            pg, xg = opt_parts(got.get(*idx))
            pe, xe = opt_parts(exp.get(*idx))
            zb = lambda p: p if isinstance(p, bool) else zbool(p)
            add(what + ".cell_present", Implies(inb, zb(pg) == zb(pe) if not (isinstance(pg, bool) and isinstance(pe, bool)) else pg == pe))
            if xe is not None:
                if xg is None:
                    add(what + ".cell_value", Implies(inb, Not(pe)))
                else:
                    ctx.solver.push()
                    ctx.solver.add(zbool(inb), zbool(pe))
                    try:
                        G.extend(expect_eq(interp, xg, xe, what + ".cell", And(guard, inb, pe)))
                    finally:
                        ctx.solver.pop()
        else:
            for d, (a, b) in enumerate(zip(got.shape, exp.shape)):
                add(f"{what}.shape[{d}]", eq(a, b))
            idx = [ctx.fresh_const(f"ix{d}") for d in range(exp.ndim)]
            inb = And(*[rng(0, i, s) for i, s in zip(idx, exp.shape)])
            if hasattr(exp, "expect_nan"):
                add(what + ".items", Implies(inb, If(exp.expect_nan(*idx), npmodel.isnan(zint(got.get(*idx))), eq(got.get(*idx), exp.get(*idx)))))
            else:
                add(what + ".items", Implies(inb, eq(got.get(*idx), exp.get(*idx))))
    elif isinstance(exp, VList):
        if isinstance(got, VNd) and got.ndim == 1 and got.fields is None:
            add(what + ".kind(list, got ndarray)", False)
        elif not isinstance(got, VList):
            add(what + ".kind(list)", False)
        else:
            add(what + ".len", eq(got.length, exp.length))
            if exp.items is not None and got.items is not None and len(exp.items) == len(got.items):
                for i, (a, b) in enumerate(zip(got.items, exp.items)):
                    G.extend(expect_eq(interp, a, b, f"{what}[{i}]", guard))
            else:
                k = ctx.fresh_const("pos")
                g2 = And(guard, rng(0, k, exp.length))
                ctx.solver.push()
                ctx.solver.add(zbool(rng(0, k, exp.length)), zbool(eq(got.length, exp.length)))
                try:
                    G.extend(expect_eq(interp, got.elem(k), exp.elem(k), f"{what}[k]", g2))
                finally:
                    ctx.solver.pop()
    elif isinstance(exp, VObj):
        if not isinstance(got, VObj) or got.cls is not exp.cls:
            add(what + f".kind({exp.cls.name})", False)
        elif hasattr(exp, "key") and hasattr(got, "key") and getattr(got, "decoded", False):
            # both denote 'the decode of the layout element with this key'
            if got.key[0] != exp.key[0] or len(got.key) != len(exp.key):
                add(what + ".element", False)
            else:
                for a, b in zip(got.key[1:], exp.key[1:]):
                    add(what + ".element_index", eq(a, b))
        else:
            for f, v in exp.fields.items():
                if isinstance(v, VDate):
                    continue
                if f not in got.fields:
                    add(f"{what}.{f}.missing", False)
                else:
                    G.extend(expect_eq(interp, got.fields[f], v, f"{what}.{f}", guard))
    elif isinstance(exp, VDate):
        if not isinstance(got, VDate):
            add(what + ".kind(datetime)", False)
        else:
            add(what + ".seconds", eq(got.secs, exp.secs))
    elif exp is None:
        add(what + ".is_none", got is None)
    elif isinstance(exp, tuple):
        if not isinstance(got, tuple) or len(got) != len(exp):
            add(what + ".kind(tuple)", False)
        else:
            for i, (a, b) in enumerate(zip(got, exp)):
                G.extend(expect_eq(interp, a, b, f"{what}[{i}]", guard))
    else:
        raise OutOfReach(f"comparison against expected {type(exp).__name__}")
    return G


# ------------------------------------------------------------------------------------------------ decoded objects (dec_T)
def decoded(interp, name, v):
    """the object a correct decoder returns for layout element v: same stored fields; gap frames NaN in every component"""
    sp = SPECS[name]
    o = VObj(v.cls, epoch=interp.ctx.epoch, label=f"dec({v.label})")
    o.key, o.layout, o.decoded = v.key, name, True
    for f, val in v.fields.items():
        o.fields[f] = val
    if hasattr(v, "present"):
        for c in sp.comps:
            src = v.fields[c]
            o.fields[c] = VNd(src.shape, src.dt, (lambda *i, src=src: If(v.present(i[0]), src.get(*i), NANW)), label=f"dec({src.label})")
            o.fields[c].expect_nan = lambda *i: Not(v.present(i[0]))      # gap frames: any NaN (C05), not a particular payload
        for a in ("present", "nruns", "run_start", "run_stop", "N"):
            setattr(o, a, getattr(v, a))
    if name == "BTSCamera":
        for c in ("x_distortion_coefficients", "y_distortion_coefficients"):
            src = v.fields[c]
            o.fields[c] = VNd((70,), src.dt, (lambda i, src=src: If(zint(i) < zint(src.shape[0]), src.get(i), npmodel.fzero(src.dt.kind))), label=f"dec({src.label})")
    if name in ("Data3D", "ForceTorque3D", "EMG", "PlatformsData", "PlatformsCalibration", "Calibration", "OpticalSetup", "Events"):
        for f, val in list(v.fields.items()):
            if isinstance(val, VList) and val.items is None and hasattr(val, "key"):
                item = _item_layout(name, f)
                if item:
                    lst = VList(None, val.n, (lambda k, val=val, item=item: decoded(interp, item, val.at(k))), label=f"dec({val.label})")
                    o.fields[f] = lst
    for f, val in list(o.fields.items()):
        if isinstance(val, VObj) and hasattr(val, "layout") and not getattr(val, "decoded", False):
            o.fields[f] = decoded(interp, val.layout, val)
    return o


_ITEM = {("Data3D", "_tracks"): "MarkerTrack", ("ForceTorque3D", "_tracks"): "ForceTorqueTrack", ("EMG", "_signals"): "EMGTrack",
         ("PlatformsData", "_platforms"): "PlatformData", ("PlatformsCalibration", "_platforms"): "PlatformInfo",
         ("OpticalSetup", "channels"): "OpticalChannel", ("Events", "events"): "Event"}


def _item_layout(block, field):
    return _ITEM.get((block, field))


# ------------------------------------------------------------------------------------------------ contracts at call sites
def layout_of(obj):
    return getattr(obj, "layout", None)


def c_item_write(interp, fn, args, kw):
    """T._write(self, file[, format]) for a layout element: appends Sub(T, self)"""
    self_, file = args[0], args[1]
    name = layout_of(self_)
    if name is None or not hasattr(self_, "key"):
        raise OutOfReach(f"{fn.qualname} called on an object that is not a layout element")
    if name == "PlatformData":
        fmt = args[2] if len(args) > 2 else kw.get("format")
        if not (isinstance(fmt, VEnum) and fmt.name == "byTrackISSFormat"):
            interp.ctx.oblige("callee.pre:ForcePlatformData._write(format is byTrackISSFormat)", False, kind="pre")
            raise OutOfReach("ForcePlatformData._write with another format")
    _file_write(interp, file, [ASub(name, self_, self_.key, sub_len(name, self_.key))])
    return None


def _file_write(interp, file, atoms):
    w = interp.getattr(file, "write")
    interp.call(w, [VBytes(atoms)], {})


def c_item_nbytes(interp, fn, args, kw):
    self_ = args[0]
    name = layout_of(self_)
    if name is None:
        raise OutOfReach(f"{fn.qualname} on a non-layout object")
    return sub_len(name, self_.key)


def c_item_build(name):
    def contract(interp, fn, args, kw):
        ctx = interp.ctx
        stream = args[0]
        if not isinstance(stream, VInFile):
            raise OutOfReach(f"{fn.qualname} from something that is not a layout stream")
        stream.descend(interp)
        stream.s.skip_empty(ctx)
        if not stream.s.cur or not isinstance(stream.s.cur[0], ASub) or stream.s.cur[0].name != name:
            raise Unaligned(f"{fn.qualname} called where the layout has {stream.s.cur[0] if stream.s.cur else 'nothing'}")
        sub = stream.s._pop()
        v = sub.obj
        extra = list(args[1:]) + [kw[k] for k in kw]
        want = SPECS[name].build_args(v)
        for pos, (a, b) in enumerate(zip(extra, want)):
            if isinstance(b, str) and b == "FORMAT":
                continue
            ctx.oblige(f"callee.pre:{fn.qualname}.arg{pos + 1}", eq(as_int(interp, a), b), kind="pre")
        ctx.epoch += 1
        return decoded(interp, name, v)
    return contract


def c_segments(interp, fn, args, kw):
    """T._segments: the maximal runs of present frames of this track (C05 write side); deterministic in self"""
    self_ = args[0]
    if not hasattr(self_, "nruns"):
        raise OutOfReach("_segments of an object without a presence structure")
    from .symlayout import runs_assume
    runs_assume(interp.ctx, self_)
    st, sp = self_.run_start, self_.run_stop
    return VRunsList(self_.nruns, lambda j: VSlice(st(j), sp(j)))


# ---- TdfType
def _btype(self_):
    bt = self_.fields.get("btype")
    if not isinstance(bt, VDType):
        raise OutOfReach("TdfType without a concrete dtype")
    return bt


def c_tdf_write(interp, fn, args, kw):
    self_, data = args[0], args[1]
    bt = _btype(self_)
    if isinstance(data, VNd):
        return npmodel.tobytes(interp, npmodel.astype(interp, data, bt.base))
    return npmodel.tobytes(interp, npmodel.nd_from_value(interp, data, bt.base))


def c_tdf_bwrite(interp, fn, args, kw):
    b = c_tdf_write(interp, fn, [args[0], args[2]], {})
    _file_write(interp, args[1], b.atoms)
    return None


def c_tdf_read(interp, fn, args, kw):
    return npmodel.frombuffer(interp, args[1], _btype(args[0]))


def c_tdf_bread(interp, fn, args, kw):
    self_, file = args[0], args[1]
    n = args[2] if len(args) > 2 else kw.get("n")
    bt = _btype(self_)
    rd = interp.getattr(file, "read")
    if n is None:
        data = interp.call(rd, [bt.itemsize], {})
        return npmodel.nd_index(interp, npmodel.frombuffer(interp, data, bt), 0)
    n = as_int(interp, n)
    data = interp.call(rd, [n * bt.itemsize], {})
    return npmodel.frombuffer(interp, data, bt)


def c_tdf_skip(interp, fn, args, kw):
    self_, file = args[0], args[1]
    n = args[2] if len(args) > 2 else kw.get("n", 1)
    interp.call(interp.getattr(file, "seek"), [as_int(interp, n) * _btype(self_).itemsize, 1], {})
    return None


def c_tdf_pad(interp, fn, args, kw):
    n = args[1] if len(args) > 1 else kw.get("n", 1)
    n = as_int(interp, n)
    k = z3.simplify(If(zint(n) > 0, zint(n), 0) * _btype(args[0]).itemsize) if conc(n) is None else max(conc(n), 0) * _btype(args[0]).itemsize
    return VBytes([APad(k)])


def c_tdf_bpad(interp, fn, args, kw):
    n = args[2] if len(args) > 2 else kw.get("n", 1)
    _file_write(interp, args[1], c_tdf_pad(interp, fn, [args[0], n], {}).atoms)
    return None


def c_tdf_nbytes(interp, fn, args, kw):
    n = args[1] if len(args) > 1 else kw.get("n", 1)
    return as_int(interp, n) * _btype(args[0]).itemsize


# ---- BTSString
def c_bts_write(interp, fn, args, kw):
    """BTSString.write(size, data): text + NUL + zero fill, exactly ``size`` bytes; ValueError if it does not fit or is
    not cp1252-encodable; never truncated (C13)"""
    ctx = interp.ctx
    size, data = args[0], args[1]
    if not isinstance(data, (str, VStr)):
        interp.raise_("AttributeError", "encode")
    seq = interp.as_seq(data)
    npmodel.cp_axioms(ctx)
    j = z3.Const(f"bw!{ctx.uid()}", I)
    ok = z3.ForAll([j], z3.Implies(zbool(rng(0, j, seq.n)), npmodel.cp_enc_ok(zint(seq.get(j)))))
    if not ctx.branch(ok, "text-encodable"):
        interp.raise_("UnicodeEncodeError", "character not in cp1252")
    if not ctx.branch(zint(seq.n) + 1 <= zint(size), "text-fits"):
        interp.raise_("ValueError", "The string is too long")
    return VBytes([AText(seq), APad(1), APad(z3.simplify(zint(size) - zint(seq.n) - 1))])


def c_bts_bwrite(interp, fn, args, kw):
    b = c_bts_write(interp, fn, [args[1], args[2]], {})
    _file_write(interp, args[0], b.atoms)
    return None


def c_bts_read(interp, fn, args, kw):
    """BTSString.read(size, data[, encoding]): the text before the first NUL of the ``size`` bytes (C12/C13)"""
    ctx = interp.ctx
    size, data = args[0], to_bytes(args[1])
    enc = args[2] if len(args) > 2 else kw.get("encoding", "windows-1252")
    total = slen(ctx, data.atoms)
    if not ctx.branch(eq(total, size), "field-has-size-bytes"):
        interp.raise_("StructError", "unpack requires a buffer of the field size")
    atoms = [a for a in data.atoms]
    is_cp = isinstance(enc, str) and enc.lower().replace("_", "-") in npmodel.CP1252_NAMES
    if is_cp and len(atoms) >= 2 and isinstance(atoms[0], AText) and isinstance(atoms[1], APad) and not atoms[1].dontcare \
            and ctx.entails(zint(atoms[1].n) >= 1) and getattr(atoms[0].seq, "valid_text", True):
        # a layout text field holding valid text s: by the verified post-condition of BTSString.read (C13 round trip with an
        # arbitrary tail) the result is s
        return VStr(atoms[0].seq)
    seq = npmodel.raw_seq(interp, atoms)
    _, dec, _, dec_ok = npmodel.codec_of(interp, enc)
    from .loops import search_first
    m = search_first(interp, 0, seq.n, lambda k: zint(seq.get(k)) == 0, "first-NUL")
    end = seq.n if m is None else m
    j = z3.Const(f"br!{ctx.uid()}", I)
    allok = z3.ForAll([j], z3.Implies(zbool(rng(0, j, end)), dec_ok(zint(seq.get(j)))))
    if not ctx.branch(allok, "text-decodable"):
        interp.raise_("UnicodeDecodeError", "byte not in the code page")
    out = VStr(Seq(end, lambda i: dec(zint(seq.get(i)))))
    if any(isinstance(a, APad) and a.dontcare for a in atoms):
        out.tainted = True
    return out


def c_bts_bread(interp, fn, args, kw):
    file, size = args[0], args[1]
    enc = args[2] if len(args) > 2 else kw.get("encoding", "windows-1252")
    data = interp.call(interp.getattr(file, "read"), [as_int(interp, size)], {})
    return c_bts_read(interp, fn, [size, data, enc], {})


# ---- BTSDate
def c_date_write(interp, fn, args, kw):
    d = args[0]
    if not isinstance(d, VDate):
        interp.raise_("AttributeError", "timestamp")
    if not interp.ctx.branch(And(zint(d.secs) >= -2**31, zint(d.secs) < 2**31), "date-in-range"):
        interp.raise_("StructError", "argument out of range")
    return VBytes([AField("i4", 1, Seq.of([d.secs]))])


def c_date_bwrite(interp, fn, args, kw):
    _file_write(interp, args[0], c_date_write(interp, fn, [args[1]], {}).atoms)
    return None


def c_date_read(interp, fn, args, kw):
    ctx = interp.ctx
    data = to_bytes(args[0])
    if not ctx.branch(eq(slen(ctx, data.atoms), 4), "date-4-bytes"):
        interp.raise_("StructError", "unpack requires a buffer of 4 bytes")
    nd = npmodel.frombuffer(interp, data, VDType("i4"))
    return VDate(nd.get(0), 0)


def c_date_bread(interp, fn, args, kw):
    return c_date_read(interp, fn, [interp.call(interp.getattr(args[0], "read"), [4], {})], {})


# ---- channel-mapped blocks: add one (channel, item) pair (C15, C16); aware of lists being built by a summarised loop
def _member(interp, lst, x):
    """x in lst, also when lst is being appended to by the enclosing summarised loop (the element appended per iteration
    is x itself): base items, or the x of an earlier iteration"""
    from .loops import list_contains, subst_value
    ctx = interp.ctx
    cap = getattr(lst, "_capture", None)
    base = list_contains(interp, lst, x)
    if cap and ctx.folds:
        k, lo, hi = ctx.folds[-1]
        j = z3.Const(f"earlier!{ctx.uid()}", I)
        xj = subst_value(x, k, j)
        if not is_int(xj):
            raise OutOfReach("membership of a non-integer in a list under construction")
        base = Or(base, z3.Exists([j], z3.And(zint(lo) <= j, j < k, zint(xj) == zint(x))))
    return base


def _auto_channel(interp, lst):
    ctx = interp.ctx
    if getattr(lst, "_capture", None) and ctx.folds:
        raise OutOfReach("automatic channel inside a summarised loop")
    n = lst.length
    if not ctx.branch(zint(n) == 0 if not isinstance(n, int) else n == 0, "map-empty"):
        m = interp.loader.b_max(interp, [lst], {})
        return m + 1
    return 0


def c_add_pair(item_cls, items_field, map_field, length_check=None, type_exc="TypeError"):
    def contract(interp, fn, args, kw):
        ctx = interp.ctx
        self_ = args[0]
        item = args[1] if len(args) > 1 else kw.get(fn.node.args.args[1].arg)
        channel = args[2] if len(args) > 2 else kw.get("channel")
        cls = interp.loader.function(interp, item_cls)
        if not ctx.branch(interp.isinstance(item, cls), "item-kind"):
            interp.raise_(type_exc, "wrong kind of item")
        if length_check:
            a = interp.getattr(item, length_check[0])
            b = interp.getattr(self_, length_check[1])
            if not ctx.branch(eq(as_int(interp, a), as_int(interp, b)), "item-length"):
                interp.raise_("ValueError", "wrong number of frames")
        mp, items = self_.fields[map_field], self_.fields[items_field]
        if channel is None:
            channel = _auto_channel(interp, mp)
        else:
            channel = as_int(interp, channel)
            if ctx.branch(_member(interp, mp, channel), "channel-taken"):
                interp.raise_("ValueError", "channel already in use")
        interp.call(interp.getattr(mp, "append"), [channel], {})
        interp.call(interp.getattr(items, "append"), [item], {})
        return None
    return contract


def c_viewport_bwrite(interp, fn, args, kw):
    return c_item_write(interp, fn, args, kw)


CONTRACTS = {
    "basictdf.tdfTypes.TdfType.write": c_tdf_write, "basictdf.tdfTypes.TdfType.bwrite": c_tdf_bwrite,
    "basictdf.tdfTypes.TdfType.read": c_tdf_read, "basictdf.tdfTypes.TdfType.bread": c_tdf_bread,
    "basictdf.tdfTypes.TdfType.skip": c_tdf_skip, "basictdf.tdfTypes.TdfType.pad": c_tdf_pad,
    "basictdf.tdfTypes.TdfType.bpad": c_tdf_bpad, "basictdf.tdfTypes.TdfType.nBytes": c_tdf_nbytes,
    "basictdf.tdfTypes.BTSString.write": c_bts_write, "basictdf.tdfTypes.BTSString.bwrite": c_bts_bwrite,
    "basictdf.tdfTypes.BTSString.read": c_bts_read, "basictdf.tdfTypes.BTSString.bread": c_bts_bread,
    "basictdf.tdfTypes.BTSDate.write": c_date_write, "basictdf.tdfTypes.BTSDate.bwrite": c_date_bwrite,
    "basictdf.tdfTypes.BTSDate.read": c_date_read, "basictdf.tdfTypes.BTSDate.bread": c_date_bread,
}
# nested layout elements: _write / nBytes / _build / _segments
_ITEM_CLASSES = ["MarkerTrack", "EMGTrack", "ForceTorqueTrack", "PlatformData", "PlatformInfo", "SeelabCamera", "BTSCamera",
                 "OpticalChannel", "Event", "Data2DPCK"]
for _n in _ITEM_CLASSES:
    _q = CLASS_OF[_n]
    CONTRACTS[_q + "._write"] = c_item_write
    CONTRACTS[_q + ".nBytes"] = c_item_nbytes
    CONTRACTS[_q + "._build"] = c_item_build(_n)
for _n in ("MarkerTrack", "EMGTrack", "ForceTorqueTrack", "PlatformData"):
    CONTRACTS[CLASS_OF[_n] + "._segments"] = c_segments
CONTRACTS["basictdf.tdfEMG.EMG.addSignal"] = c_add_pair("basictdf.tdfEMG.EMGTrack", "_signals", "_emgMap", ("nSamples", "nSamples"))
CONTRACTS["basictdf.tdfForcePlatformsCalibration.ForcePlatformsCalibrationDataBlock.add_platform"] = c_add_pair(
    "basictdf.tdfForcePlatformsCalibration.ForcePlatformInfo", "_platforms", "_platformMap")
CONTRACTS["basictdf.tdfTypes.CameraViewPort.bwrite"] = c_item_write
CONTRACTS["basictdf.tdfTypes.CameraViewPort.bread"] = c_item_build("Viewport")
