"""numpy comparison contracts used by the __eq__ methods (C14): array_equal, allclose, all, elementwise ==."""
import z3

from .core import (And, B, I, If, Implies, Not, Or, OutOfReach, VBuiltin, VFloat, VList, conc, eq, is_int, rng, zbool, zint)

close = z3.Function("close", I, I, B)          # |x - y| within numpy's default tolerance (uninterpreted)


def close_axioms(ctx):
    from .npmodel import isnan
    x, y = z3.Const("cx", I), z3.Const("cy", I)
    ctx.axiom_once("close", z3.And(z3.ForAll([x], z3.Implies(z3.Not(isnan(x)), close(x, x))),
                                   z3.ForAll([x, y], z3.Implies(z3.Or(isnan(x), isnan(y)), z3.Not(close(x, y)))),
                                   z3.ForAll([x, y], close(x, y) == close(y, x))))


class VNdBool:
    """boolean array (result of an elementwise comparison)"""

    def __init__(self, shape, get):
        self.shape, self.get = tuple(shape), get


def as_array(interp, x):
    """(shape tuple, get(*idx) -> term, kind) for arrays, integer lists, scalars"""
    from .npmodel import VNd, as_int
    if isinstance(x, VNd):
        if x.fields is not None or x.dt.kind == "obj":
            raise OutOfReach("comparison of structured / object arrays")
        return x.shape, x.get, x.dt.kind
    if isinstance(x, VList):
        if x.items is not None:
            vals = [as_int(interp, v) for v in x.items]
            if not all(is_int(v) for v in vals):
                raise OutOfReach("comparison of a list of non-integers")
            from .core import Seq
            s = Seq.of(vals)
            return (len(vals),), (lambda i: s.get(i)), "i8"
        probe = x.at(z3.Int("probe!arr"))
        if not is_int(as_int(interp, probe)):
            raise OutOfReach("comparison of a list of non-integers")
        return (x.n,), (lambda i: as_int(interp, x.at(i))), "i8"
    if isinstance(x, VFloat):
        return (), (lambda: x.w), x.kind
    if is_int(x):
        return (), (lambda: x), "i8"
    if isinstance(x, (tuple, list)):
        vals = [as_int(interp, v) for v in x]
        if all(is_int(v) for v in vals):
            from .core import Seq
            s = Seq.of(vals)
            return (len(vals),), (lambda i: s.get(i)), "i8"
    raise OutOfReach(f"array comparison of {type(x).__name__}")


def _same_shape(sa, sb):
    if len(sa) != len(sb):
        return False
    return And(*[eq(a, b) for a, b in zip(sa, sb)])


def _forall_items(ctx, shape, body):
    idx = [z3.Const(f"ae{d}!{ctx.uid()}", I) for d in range(len(shape))]
    if not idx:
        return zbool(body())
    inb = And(*[rng(0, i, s) for i, s in zip(idx, shape)])
    return z3.ForAll(idx, z3.Implies(zbool(inb), zbool(body(*idx))))


def word_eq(kind_a, a, kind_b, b, equal_nan, approx=False):
    from .npmodel import isnan
    fl = kind_a in ("f4", "f8", "py") or kind_b in ("f4", "f8", "py")
    if not fl:
        return eq(a, b)
    a, b = zint(a), zint(b)
    same = close(a, b) if approx else a == b
    base = And(Not(isnan(a)), Not(isnan(b)), same)
    return Or(base, And(isnan(a), isnan(b))) if equal_nan else base


def array_equal(interp, a, b, equal_nan=False, approx=False):
    ctx = interp.ctx
    close_axioms(ctx)
    from .loops import MixedElem
    if isinstance(a, MixedElem) or isinstance(b, MixedElem):
        # optional cells of an object array (None or an array): array(None) has shape (), so None equals only None;
        # with equal_nan=True numpy calls isnan on both sides once the shapes agree: TypeError for None against None
        if approx:
            raise OutOfReach("allclose of optional cells")
        from .symlayout import opt_parts
        pa, xa = opt_parts(a)
        pb, xb = opt_parts(b)
        none_a = Not(pa) if xa is not None else True
        none_b = Not(pb) if xb is not None else True
        both_none = And(none_a, none_b)
        if equal_nan and not ctx.entails(Not(zbool(both_none))):
            if ctx.entails(zbool(both_none)):
                interp.raise_("TypeError", "ufunc 'isnan' not supported for the input types")
            raise OutOfReach("np.array_equal(None, None, equal_nan=True) raises TypeError: the cells may both be empty here")
        if xa is None or xb is None:
            return both_none
        return Or(both_none, And(pa, pb, array_equal(interp, xa, xb, equal_nan=equal_nan)))
    if a is None or b is None:
        if a is None and b is None and equal_nan:
            interp.raise_("TypeError", "ufunc 'isnan' not supported for the input types")
        return a is None and b is None
    sa, ga, ka = as_array(interp, a)
    sb, gb, kb = as_array(interp, b)
    ss = _same_shape(sa, sb)
    if ss is False:
        if approx:
            raise OutOfReach("allclose with broadcasting")
        return False
    items = _forall_items(ctx, sa, lambda *i: word_eq(ka, ga(*i), kb, gb(*i), equal_nan, approx))
    if approx and conc(ss) is not True:
        # shapes that differ broadcast or raise in numpy: only equal shapes are modelled
        if not ctx.entails(ss):
            raise OutOfReach("allclose of arrays whose shapes may differ")
    return And(ss, items)


def numpy_ns(interp):
    def b_array_equal(interp, a, k):
        return array_equal(interp, a[0], a[1], equal_nan=_flag(interp, k.get("equal_nan", a[2] if len(a) > 2 else False)))

    def b_allclose(interp, a, k):
        return array_equal(interp, a[0], a[1], equal_nan=_flag(interp, k.get("equal_nan", False)), approx=True)

    def b_all(interp, a, k):
        x = a[0]
        if isinstance(x, VNdBool):
            return _forall_items(interp.ctx, x.shape, lambda *i: x.get(*i))
        if isinstance(x, bool) or isinstance(x, z3.BoolRef):
            return x
        raise OutOfReach("np.all of a non-boolean array")

    def b_isnan(interp, a, k):
        from .npmodel import isnan, VNd
        x = a[0]
        if isinstance(x, VNd):
            return VNdBool(x.shape, lambda *i: isnan(zint(x.get(*i))))
        if isinstance(x, VFloat):
            return isnan(zint(x.w))
        raise OutOfReach("np.isnan")
    return {"array_equal": VBuiltin("np.array_equal", b_array_equal), "allclose": VBuiltin("np.allclose", b_allclose),
            "all": VBuiltin("np.all", b_all), "isnan": VBuiltin("np.isnan", b_isnan)}


def _flag(interp, v):
    c = conc(v) if not isinstance(v, bool) else v
    if c is None:
        raise OutOfReach("symbolic equal_nan flag")
    return bool(c)


def elementwise_eq(interp, a, b):
    """a == b on arrays: boolean array (equal shapes only)"""
    sa, ga, ka = as_array(interp, a)
    sb, gb, kb = as_array(interp, b)
    ss = _same_shape(sa, sb)
    if ss is False or not interp.ctx.entails(ss):
        raise OutOfReach("elementwise == of arrays whose shapes may differ")
    return VNdBool(sa, lambda *i: word_eq(ka, ga(*i), kb, gb(*i), False))
