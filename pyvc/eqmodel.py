"""numpy comparison contracts (np.all / allclose / array_equal) -- filled in by the object engine."""
from .core import OutOfReach, VBuiltin


def numpy_ns(interp):
    def nope(name):
        def f(interp, a, k):
            raise OutOfReach(f"np.{name} is not modelled here")
        return VBuiltin("np." + name, f)
    return {n: nope(n) for n in ("all", "allclose", "array_equal", "isnan", "any")}
