"""Byte streams as terms of the free monoid over field atoms (DESIGN.md 2.5), their length (with sum linearisation),
the normaliser that decides equality of two stream terms, and aligned reading from a layout-shaped input."""
import z3

from .core import (And, I, If, Implies, Not, OutOfReach, Seq, conc, eq, is_int, rng, zint)

ITEMSIZE = {"i2": 2, "u2": 2, "i4": 4, "u4": 4, "f4": 4, "f8": 8, "u1": 1}
INT_RANGE = {"i2": (-2**15, 2**15), "u2": (0, 2**16), "i4": (-2**31, 2**31), "u4": (0, 2**32), "u1": (0, 256)}


class Unaligned(Exception):
    """two stream terms (or a read and the layout) cannot be aligned structurally: undecided, not unequal"""


class Atom:
    pass


class AField(Atom):
    def __init__(self, kind, count, seq):
        self.kind, self.count, self.seq = kind, count, seq

    def __repr__(self):
        return f"{self.kind}[{self.count}]"


class AText(Atom):
    """cp1252 bytes of the code points in ``seq`` (one byte per character)"""

    def __init__(self, seq):
        self.seq = seq

    def __repr__(self):
        return f"text[{self.seq.n}]"


class APad(Atom):
    """n bytes: zeros when written; ``dontcare`` marks positions whose value is unconstrained when read"""

    def __init__(self, n, dontcare=False):
        self.n, self.dontcare = n, dontcare

    def __repr__(self):
        return f"pad[{self.n}]" + ("?" if self.dontcare else "")


class ALit(Atom):
    def __init__(self, data):
        self.data = bytes(data)

    def __repr__(self):
        return f"lit{self.data[:8]!r}"


class ARaw(Atom):
    """raw bytes given as a Seq of byte values"""

    def __init__(self, seq):
        self.seq = seq

    def __repr__(self):
        return f"raw[{self.seq.n}]"


class AFold(Atom):
    """for k in [lo, hi): body(k)   -- body is a function from an index term to a list of atoms"""

    def __init__(self, lo, hi, body, tag=None):
        self.lo, self.hi, self.body, self.tag = lo, hi, body, tag

    def __repr__(self):
        return f"fold[{self.lo}:{self.hi}]"


class ASub(Atom):
    """one instance of nested layout ``name`` for object ``obj``; ``key`` identifies the object (path, index terms)"""

    def __init__(self, name, obj, key, length):
        self.name, self.obj, self.key, self.length = name, obj, key, length

    def __repr__(self):
        return f"<{self.name}>"


def subst_atoms(atoms, k, term):
    """atoms with the index constant k replaced by ``term``"""
    def st(x):
        return z3.substitute(x, (k, zint(term))) if isinstance(x, z3.ExprRef) else x

    def sseq(s):
        return Seq(st(s.n), lambda i, s=s: st(s.get(i)), s.tag)

    out = []
    for a in atoms:
        if isinstance(a, AField):
            out.append(AField(a.kind, st(a.count), sseq(a.seq)))
        elif isinstance(a, AText):
            out.append(AText(sseq(a.seq)))
        elif isinstance(a, ARaw):
            out.append(ARaw(sseq(a.seq)))
        elif isinstance(a, APad):
            out.append(APad(st(a.n), a.dontcare))
        elif isinstance(a, ALit):
            out.append(a)
        elif isinstance(a, AFold):
            out.append(AFold(st(a.lo), st(a.hi), (lambda j, a=a: subst_atoms(a.body(j), k, term)), a.tag))
        elif isinstance(a, ASub):
            from .loops import subst_value
            out.append(ASub(a.name, subst_value(a.obj, k, term), tuple(st(x) for x in a.key), st(a.length)))
        else:
            raise OutOfReach(f"subst over {a!r}")
    return out


def guard_atoms(g, atoms):
    """the bytes ``atoms`` if g else nothing (a write executed under the condition g)"""
    out = []
    for a in atoms:
        if isinstance(a, AField):
            out.append(AField(a.kind, If(g, zint(a.count), 0), a.seq))
        elif isinstance(a, AText):
            out.append(AText(Seq(If(g, zint(a.seq.n), 0), a.seq.get, a.seq.tag)))
        elif isinstance(a, ARaw):
            out.append(ARaw(Seq(If(g, zint(a.seq.n), 0), a.seq.get, a.seq.tag)))
        elif isinstance(a, APad):
            out.append(APad(If(g, zint(a.n), 0), a.dontcare))
        elif isinstance(a, ALit):
            if any(a.data):
                out.append(ARaw(Seq(If(g, len(a.data), 0), Seq.of(list(a.data)).get)))
            else:
                out.append(APad(If(g, len(a.data), 0)))
        elif isinstance(a, AFold):
            out.append(AFold(a.lo, If(g, zint(a.hi), zint(a.lo)), a.body, a.tag))
        else:
            raise OutOfReach(f"conditional write of {a!r}")
    return out


def field_as_fold(a):
    """an AField as the fold of its rows (table-shaped sequences) or of its single items: the same bytes"""
    from .core import Seq2
    if isinstance(a.seq, Seq2):
        sq = a.seq
        return AFold(0, sq.rows, (lambda k, sq=sq, a=a: [AField(a.kind, sq.cols, Seq(sq.cols, lambda j, k=k: sq.get2(k, j)))]), tag="rows")
    return AFold(0, a.count, (lambda k, a=a: [AField(a.kind, 1, Seq(1, lambda i, k=k: a.seq.get(k)))]), tag="items")


# ------------------------------------------------------------------------------------------------ sums
class Sums:
    """linearised sums  SUM_{lo<=k<hi} t(k) = c0*(hi-lo) + sum_i c_i * S[a_i]  with one constant S per distinct summand atom"""

    def __init__(self, ctx):
        self.ctx = ctx
        self.table = {}
        self.linked = set()

    def total(self, lo, hi, k, t):
        """k is a z3 Int constant occurring in t"""
        n = zint(hi) - zint(lo)
        if not self.ctx.entails(zint(hi) >= zint(lo)):
            n = If(zint(hi) > zint(lo), n, 0)
        if isinstance(t, int) or not _mentions(t, k):
            return z3.simplify(n * zint(t))
        c0, parts = _linear(z3.simplify(t), k)
        res = n * zint(c0)
        for coeff, a in parts:
            res = res + zint(coeff) * self._S(lo, hi, k, a)
        return z3.simplify(res)

    def _S(self, lo, hi, k, a):
        """SUM_{lo<=k<hi} a  as a term.  The sum is a function of every other integer constant occurring in lo, hi and a
        (enclosing loop indices among them: a nested sum must vary with the outer index), so it is an application
        F(c1..cn) of one function symbol per summand shape -- the shape being the summand with its constants renamed
        canonically, which makes the same sum written with differently named indices the same term."""
        canon = z3.Const("k!canon", I)
        lo_t, hi_t = zint(lo), zint(hi)
        body = z3.substitute(a, (k, canon))
        consts = []
        seen = set()
        stack = [hi_t, lo_t, body]
        order = []
        # deterministic pre-order walk
        def walk(x):
            if x.get_id() in seen:
                return
            seen.add(x.get_id())
            if z3.is_const(x) and x.decl().kind() == z3.Z3_OP_UNINTERPRETED and x.sort() == I and not x.eq(canon):
                order.append(x)
            for ch in x.children():
                walk(ch)
        for x in (lo_t, hi_t, body):
            walk(x)
        ren = [(c, z3.Const(f"c!canon{n}", I)) for n, c in enumerate(order)]
        shape = (z3.substitute(lo_t, *ren).sexpr() if ren else lo_t.sexpr(), z3.substitute(hi_t, *ren).sexpr() if ren else hi_t.sexpr(),
                 z3.substitute(body, *ren).sexpr() if ren else body.sexpr())
        if shape not in self.table:
            self.table[shape] = z3.Function(f"SUM!{len(self.table)}!{abs(hash(shape)) % 10**8}", *([I] * len(order)), I) if order else \
                z3.Const(f"SUM!{len(self.table)}!{abs(hash(shape)) % 10**8}", I)
        f = self.table[shape]
        s = f(*order) if order else f
        inst = s.sexpr()
        if inst not in self.linked:
            self.linked.add(inst)
            # linking axioms: empty range sums to 0; sums of non-negative summands are non-negative (when provable)
            self.ctx.assume(Implies(hi_t <= lo_t, s == 0))
            self.ctx.solver.push()
            self.ctx.solver.add(rng(lo, k, hi))
            nonneg = self.ctx.solver.check(a < 0) == z3.unsat
            pos = nonneg and self.ctx.solver.check(a < 1) == z3.unsat
            self.ctx.solver.pop()
            if nonneg:
                self.ctx.assume(s >= 0)
            if pos:
                self.ctx.assume(s >= hi_t - lo_t)
        return s


def _mentions(t, k):
    if not isinstance(t, z3.ExprRef):
        return False
    seen, stack = set(), [t]
    while stack:
        x = stack.pop()
        if x.get_id() in seen:
            continue
        seen.add(x.get_id())
        if x.eq(k):
            return True
        stack.extend(x.children())
    return False


def _linear(t, k):
    """t = c0 + sum coeff*atom with atoms mentioning k; c0 and coeffs free of k.  Returns (c0, [(coeff, atom)])"""
    if not _mentions(t, k):
        return t, []
    if z3.is_add(t):
        c0, parts = 0, []
        for ch in t.children():
            c, p = _linear(ch, k)
            c0 = c0 + c
            parts += p
        return c0, parts
    if z3.is_sub(t):
        ch = t.children()
        c0, parts = _linear(ch[0], k)
        for x in ch[1:]:
            c, p = _linear(x, k)
            c0 = c0 - c
            parts += [(-co, a) for co, a in p]
        return c0, parts
    if z3.is_mul(t):
        ch = t.children()
        free = [x for x in ch if not _mentions(x, k)]
        dep = [x for x in ch if _mentions(x, k)]
        if len(dep) == 1:
            coeff = 1
            for x in free:
                coeff = coeff * x
            c, p = _linear(dep[0], k)
            return coeff * c, [(coeff * co, a) for co, a in p]
    if z3.is_app(t) and t.decl().kind() == z3.Z3_OP_UMINUS:
        c, p = _linear(t.children()[0], k)
        return -c, [(-co, a) for co, a in p]
    if z3.is_app(t) and t.decl().kind() == z3.Z3_OP_ITE:
        # If(c, c0 + sum co_i*a_i, 0) = c0*If(c,1,0) + sum co_i*If(c,a_i,0): constant factors leave the conditional, so a
        # guarded summand has one canonical shape whichever side multiplied first
        c, x, y = t.children()
        zero = lambda e: z3.is_int_value(e) and e.as_long() == 0
        if zero(z3.simplify(y)) or zero(z3.simplify(x)):
            if zero(z3.simplify(x)):
                c, x = z3.simplify(z3.Not(c)), y
            c0, parts = _linear(z3.simplify(x), k)
            out = [(co, z3.If(c, a, 0)) for co, a in parts]
            c0s = z3.simplify(zint(c0)) if not isinstance(c0, int) else z3.IntVal(c0)
            if not zero(c0s):
                out.append((c0, z3.If(c, z3.IntVal(1), z3.IntVal(0))))
            return 0, out
    return 0, [(1, t)]


def alen(ctx, a):
    """byte length of an atom as an integer term"""
    if isinstance(a, AField):
        return ITEMSIZE[a.kind] * zint(a.count) if not isinstance(a.count, int) else ITEMSIZE[a.kind] * a.count
    if isinstance(a, (AText, ARaw)):
        return a.seq.n
    if isinstance(a, APad):
        return a.n
    if isinstance(a, ALit):
        return len(a.data)
    if isinstance(a, ASub):
        return a.length
    if isinstance(a, AFold):
        k = z3.Const(f"ksum!{ctx.uid()}", I)
        ctx.solver.push()
        ctx.solver.add(rng(a.lo, k, a.hi))
        try:
            body_len = slen(ctx, a.body(k))
        finally:
            ctx.solver.pop()
        return ctx.sums.total(a.lo, a.hi, k, body_len)
    raise OutOfReach(f"length of {a!r}")


def slen(ctx, atoms):
    t = 0
    for a in atoms:
        t = t + alen(ctx, a)
    return z3.simplify(t) if isinstance(t, z3.ExprRef) else t


# ------------------------------------------------------------------------------------------------ normaliser
def _norm(ctx, atoms):
    """drop provably empty atoms, turn zero literals into pads, merge adjacent pads"""
    out = []
    for a in atoms:
        if isinstance(a, ALit):
            if len(a.data) == 0:
                continue
            if not any(a.data):
                a = APad(len(a.data))
        if isinstance(a, APad):
            c = conc(a.n)
            if c == 0:
                continue
            if out and isinstance(out[-1], APad) and not getattr(a, "any_content", False) and not getattr(out[-1], "any_content", False):
                out[-1] = APad(out[-1].n + a.n, out[-1].dontcare and a.dontcare)
                continue
        if isinstance(a, AField) and conc(a.count) == 0:
            continue
        if isinstance(a, AFold) and ctx.entails(zint(a.hi) <= zint(a.lo)):
            continue
        out.append(a)
    return out


def _kinds_compatible(k1, k2):
    if k1 == k2:
        return True
    return {k1, k2} in ({"i4", "u4"}, {"i2", "u2"})


def stream_eq_goals(ctx, impl, spec, what="stream", guard=True):
    """goals [(name, formula)] whose validity implies  impl == spec  byte for byte.  Raises Unaligned if the two terms
    cannot be aligned atom by atom."""
    impl, spec = _norm(ctx, impl), _norm(ctx, spec)
    goals = []
    i = j = 0
    pos = 0
    while i < len(impl) or j < len(spec):
        if i >= len(impl) or j >= len(spec):
            rest = impl[i:] if i < len(impl) else spec[j:]
            # the remainder must be provably empty
            for a in rest:
                goals.append((f"{what}.@{pos}.extra_is_empty({a!r})", Implies(guard, eq(alen(ctx, a), 0))))
                pos += 1
            break
        a, b = impl[i], spec[j]
        tag = f"{what}.@{pos}"
        if isinstance(b, APad) and b.dontcare and getattr(b, "any_content", False):
            # the specification leaves these bytes free: any atoms of exactly that total length are accepted
            tot, n_ = 0, i
            while n_ < len(impl):
                tot = tot + alen(ctx, impl[n_])
                n_ += 1
                if ctx.entails(eq(tot, b.n)):
                    break
                if n_ - i > 6:
                    break
            goals.append((f"{tag}.free_bytes.length", Implies(guard, eq(tot, b.n))))
            i, j, pos = n_, j + 1, pos + 1
            continue
        if isinstance(a, AField) and isinstance(b, AField) and a.kind == b.kind and not ctx.entails(eq(a.count, b.count)):
            # items followed by explicit zero bytes are the same bytes as more items that are zero
            for side, lst, pos_ in (("impl", impl, i), ("spec", spec, j)):
                nxt = lst[pos_ + 1] if pos_ + 1 < len(lst) else None
                cur = lst[pos_]
                if isinstance(nxt, APad) and not nxt.dontcare:
                    from .npmodel import fzero
                    size = ITEMSIZE[cur.kind]
                    extra = z3.simplify(zint(nxt.n) / size)
                    if ctx.entails(zint(nxt.n) == extra * size):
                        zero = fzero(cur.kind) if cur.kind in ("f4", "f8") else z3.IntVal(0)
                        merged = AField(cur.kind, z3.simplify(zint(cur.count) + extra), Seq(cur.count, cur.seq.get).concat(Seq(extra, lambda i_, zero=zero: zero)))
                        lst[pos_:pos_ + 2] = [merged]
            a, b = impl[i], spec[j]
        if isinstance(a, AField) and isinstance(b, AField):
            if not _kinds_compatible(a.kind, b.kind):
                goals.append((f"{tag}.kind({a.kind} vs layout {b.kind})", Implies(guard, False)))
            else:
                goals.append((f"{tag}.{b.kind}.count", Implies(guard, eq(a.count, b.count))))
                k = ctx.fresh_const("item")
                g = eq(a.seq.get(k), b.seq.get(k))
                if a.kind != b.kind:
                    lo, hi = max(INT_RANGE[a.kind][0], INT_RANGE[b.kind][0]), min(INT_RANGE[a.kind][1], INT_RANGE[b.kind][1])
                    g = And(g, rng(lo, a.seq.get(k), hi))
                goals.append((f"{tag}.{b.kind}.value", Implies(And(guard, rng(0, k, b.count)), g)))
        elif isinstance(a, AText) and isinstance(b, AText):
            goals.append((f"{tag}.text.len", Implies(guard, eq(a.seq.n, b.seq.n))))
            k = ctx.fresh_const("chr")
            goals.append((f"{tag}.text.chars", Implies(And(guard, rng(0, k, b.seq.n)), eq(a.seq.get(k), b.seq.get(k)))))
        elif isinstance(a, APad) and isinstance(b, APad):
            goals.append((f"{tag}.pad.len", Implies(guard, eq(a.n, b.n))))
        elif isinstance(a, ALit) and isinstance(b, ALit):
            goals.append((f"{tag}.literal", Implies(guard, a.data == b.data)))
        elif isinstance(a, ASub) and isinstance(b, ASub):
            same = a.name == b.name and len(a.key) == len(b.key) and a.key[0] == b.key[0]
            if not same:
                goals.append((f"{tag}.sub({a.name}:{a.key[0]} vs layout {b.name}:{b.key[0]})", Implies(guard, False)))
            else:
                for x, y in zip(a.key[1:], b.key[1:]):
                    goals.append((f"{tag}.sub.{b.name}.index", Implies(guard, eq(x, y))))
        elif isinstance(a, AFold) and isinstance(b, AFold):
            goals.append((f"{tag}.fold.count", Implies(guard, eq(zint(a.hi) - zint(a.lo), zint(b.hi) - zint(b.lo)))))
            jx = ctx.fresh_const("fold_j")
            inner_guard = And(guard, rng(0, jx, zint(b.hi) - zint(b.lo)))
            ctx.solver.push()
            ctx.solver.add(rng(0, jx, zint(b.hi) - zint(b.lo)))
            try:
                goals += stream_eq_goals(ctx, a.body(zint(a.lo) + jx), b.body(zint(b.lo) + jx), f"{tag}.fold", inner_guard)
            finally:
                ctx.solver.pop()
        elif (isinstance(a, ARaw) and isinstance(b, ALit)) or (isinstance(a, ALit) and isinstance(b, ARaw)):
            sa = a.seq if isinstance(a, ARaw) else Seq.of(list(a.data))
            sb = b.seq if isinstance(b, ARaw) else Seq.of(list(b.data))
            goals.append((f"{tag}.raw.len", Implies(guard, eq(sa.n, sb.n))))
            k = ctx.fresh_const("byte")
            goals.append((f"{tag}.raw.bytes", Implies(And(guard, rng(0, k, sb.n)), eq(sa.get(k), sb.get(k)))))
        elif isinstance(a, ARaw) and isinstance(b, ARaw):
            goals.append((f"{tag}.raw.len", Implies(guard, eq(a.seq.n, b.seq.n))))
            k = ctx.fresh_const("byte")
            goals.append((f"{tag}.raw.bytes", Implies(And(guard, rng(0, k, b.seq.n)), eq(a.seq.get(k), b.seq.get(k)))))
        else:
            # an empty fold / zero-count field on one side may be skipped if provably empty
            if ctx.entails(eq(alen(ctx, a), 0)):
                i += 1
                continue
            if ctx.entails(eq(alen(ctx, b), 0)):
                j += 1
                continue
            if isinstance(a, AField) and isinstance(b, AFold):
                impl[i] = field_as_fold(a)
                continue
            if isinstance(a, AFold) and isinstance(b, AField):
                spec[j] = field_as_fold(b)
                continue
            raise Unaligned(f"{tag}: wrote {a!r} where the layout has {b!r}")
        i += 1
        j += 1
        pos += 1
    return goals


# ------------------------------------------------------------------------------------------------ streams
class OutStream:
    """write-only stream (BytesIO used as a sink, or a file positioned for appending)"""

    def __init__(self, label="out"):
        self.atoms = []
        self.label = label
        self.capture = []      # stack of temporary lists (fold bodies)

    def write(self, atoms):
        (self.capture[-1] if self.capture else self.atoms).extend(atoms)


class InStream:
    """read-only stream whose content is a stream term; reads must align with atoms"""

    def __init__(self, atoms, label="in"):
        self.frames = [list(atoms)]   # stack: innermost = body of the fold being consumed
        self.label = label
        self.consumed = []            # top-level atoms consumed (for the 'consumed exactly' clause)
        self.skipped_dontcare = 0

    @property
    def cur(self):
        return self.frames[-1]

    def take(self, ctx, nbytes, why="read"):
        """consume exactly nbytes; returns the list of atoms covering them"""
        out = []
        need = nbytes
        guard = 0
        while True:
            c = conc(need)
            if c == 0 or (c is None and ctx.entails(eq(need, 0))):
                return out
            if not self.cur:
                raise Unaligned(f"{why} of {nbytes} bytes runs past the end of the layout")
            a = self.cur[0]
            L = alen(ctx, a)
            if ctx.entails(eq(L, 0)):
                self._pop()
                continue
            if ctx.entails(zint(L) <= zint(need)):
                self._pop()
                out.append(a)
                need = z3.simplify(zint(need) - zint(L))
                continue
            # need < L (or undecided): try to split the head atom
            part = self._split(ctx, a, need)
            if part is None:
                raise Unaligned(f"{why} of {nbytes} bytes does not end on a field boundary of the layout (head {a!r} has {L} bytes)")
            first, rest = part
            self.cur[0] = rest
            if len(self.frames) == 1:
                self.consumed.append(first)
            out.append(first)
            return out
            guard += 1

    def skip_empty(self, ctx):
        while self.cur and conc(alen(ctx, self.cur[0])) == 0:
            self._pop()

    def _pop(self):
        a = self.cur.pop(0)
        if len(self.frames) == 1:
            self.consumed.append(a)
        return a

    def _split(self, ctx, a, need):
        if isinstance(a, APad):
            if ctx.entails(And(zint(need) >= 0, zint(need) <= zint(a.n))):
                return APad(need, a.dontcare), APad(z3.simplify(zint(a.n) - zint(need)), a.dontcare)
        if isinstance(a, AField):
            sz = ITEMSIZE[a.kind]
            m = conc(need)
            if m is not None and m % sz == 0:
                m //= sz
            else:
                m = z3.simplify(zint(need) / sz)
                if not ctx.entails(zint(need) == sz * m):
                    return None
            if ctx.entails(And(zint(m) >= 0, zint(m) <= zint(a.count))):
                return AField(a.kind, m, a.seq.slice(0, m)), AField(a.kind, z3.simplify(zint(a.count) - zint(m)), a.seq.slice(m, a.count))
        return None
