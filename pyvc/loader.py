"""Loads the repository's modules from source (every run), provides builtins and the stdlib / numpy models."""
import ast
import hashlib
import os

import z3

from . import npmodel
from .core import (And, I, If, Implies, Not, Or, OutOfReach, PyRaise, Seq, VBound, VBuiltin, VClassMethod, VDate, VEnum, VExc,
                   VFloat, VFmt, VList, VModule, VObj, VOpaque, VProperty, VSlice, VStatic, VStr, conc, eq, is_bool, is_int,
                   rng, zbool, zint)
from .interp import (ABC_BASE, ENUM_BASE, EXC, GENERIC_BASE, INTENUM_BASE, OBJECT, T_BOOL, T_BYTES, T_DATETIME, T_DICT, T_FLOAT,
                     T_INT, T_LIST, T_NDARRAY, T_NONE, T_SET, T_STR, T_TUPLE, ClassModel, Env, FuncModel, Interp)
from .loops import (GenExp, VEnumerate, VIter, VRange, VZip, b_any, b_next, b_sum, iter_info, search_first)
from .npmodel import (NOATTR, VBytes, VBytesIO, VDType, VMasked, VNd, VRunsList, VTimestamp, as_int, isnan, NANW, parse_dtype,
                      to_bytes)
from .stream import AField, ALit, APad, slen

_AST_CACHE = {}


class VTyping:
    """typing constructs: inert"""

    def __init__(self, name):
        self.name = name


class VSuper:
    def __init__(self, cls, inst):
        self.cls, self.inst = cls, inst


class ModuleModel:
    def __init__(self, name, path):
        self.name, self.path, self.ns = name, path, {}


isinf = z3.Function("isinf", I, z3.BoolSort())


class ModuleLoader:
    def __init__(self, src_root, contracts=None, loop_hooks=None):
        self.src_root = src_root
        self.contracts = contracts or {}
        self.loop_hooks = loop_hooks or {}
        self.modules = {}
        self.float_consts = {}
        self.frames = []

    # ---------------------------------------------------------------- source access
    def source_path(self, modname):
        rel = modname.replace(".", os.sep)
        for cand in (os.path.join(self.src_root, rel + ".py"), os.path.join(self.src_root, rel, "__init__.py")):
            if os.path.exists(cand):
                return cand
        return None

    def parse(self, path):
        st = os.stat(path)
        key = (path, st.st_mtime_ns, st.st_size)
        if key not in _AST_CACHE:
            src = open(path, encoding="utf-8").read()
            _AST_CACHE[key] = (ast.parse(src, filename=path), hashlib.sha256(src.encode()).hexdigest())
        return _AST_CACHE[key]

    def import_module(self, interp, name):
        if name in self.modules:
            return self.modules[name]
        std = self.std_module(interp, name)
        if std is not None:
            self.modules[name] = std
            return std
        path = self.source_path(name)
        if path is None:
            # a module from outside the repository without a contract here: importing it is taken to have no effect on the
            # repository's state (assumption); whatever is used from it is out of reach at the point of use
            mod_name = name

            class _Opaque(dict):
                def __missing__(self, k):
                    def use(interp, a, kw, k=k):
                        # called with immutable arguments only (names, numbers): an opaque result, out of reach when used;
                        # anything mutable handed over could be changed by the callee
                        if all(v is None or isinstance(v, (str, int, float, bool, bytes, VStr)) for v in list(a) + list(kw.values())):
                            return VOpaque(f"result of {mod_name}.{k}")
                        raise OutOfReach(f"call of {mod_name}.{k}: module {mod_name} is not modelled")
                    return VBuiltin(f"{mod_name}.{k}", use)

                def __contains__(self, k):
                    return True
            std = VModule(name, _Opaque())
            self.modules[name] = std
            return std
        tree, _ = self.parse(path)
        mod = ModuleModel(name, path)
        self.modules[name] = mod
        env = Env(mod.ns, None, module=mod)
        env.vars = mod.ns
        mod.ns["__name__"] = name
        for st in tree.body:
            interp.exec(st, env)
        return mod

    def function(self, interp, qualname):
        """FuncModel (or property) for 'pkg.mod.Class.method' / 'pkg.mod.func'"""
        parts = qualname.split(".")
        for cut in range(len(parts) - 1, 0, -1):
            modname = ".".join(parts[:cut])
            if self.source_path(modname):
                mod = self.import_module(interp, modname)
                obj = mod.ns[parts[cut]]
                for p in parts[cut + 1:]:
                    if isinstance(obj, ClassModel):
                        obj = obj.attrs[p]
                    else:
                        raise KeyError(qualname)
                return obj
        raise KeyError(qualname)

    def loop_hook(self, interp, s, env, lo, hi, elem):
        q = None
        e = env
        while e is not None and q is None:
            q = e.qualname
            e = e.parent
        h = self.loop_hooks.get((q, s.lineno)) or self.loop_hooks.get(q)
        if h:
            return h(interp, s, env, lo, hi, elem)
        return False

    def float_const(self, interp, v):
        if v != v:
            npmodel.float_axioms(interp.ctx)
            return VFloat(NANW, "py")
        key = repr(v)
        if key not in self.float_consts:
            self.float_consts[key] = len(self.float_consts)
        return VFloat(npmodel.fconst(z3.IntVal(self.float_consts[key])), "py")

    # ---------------------------------------------------------------- builtins
    def builtin(self, interp, name):
        if name in EXC:
            return EXC[name]
        t = {"int": T_INT, "str": T_STR, "list": T_LIST, "tuple": T_TUPLE, "bytes": T_BYTES, "float": T_FLOAT, "bool": T_BOOL,
             "dict": T_DICT, "object": OBJECT, "set": T_SET}
        if name in t:
            return t[name]
        if name in ("True", "False", "None"):
            return {"True": True, "False": False, "None": None}[name]
        fn = getattr(self, "b_" + name, None)
        if fn is not None:
            return VBuiltin(name, fn)
        return None

    def builtin_class_attr(self, interp, cls, name):
        if cls is T_DATETIME:
            if name == "now":
                def now(interp, a, k):
                    ctx = interp.ctx
                    s, f = ctx.fresh_int("now_secs"), ctx.fresh_int("now_frac")
                    ctx.assume(And(s >= 0, s < 2**31))
                    return VDate(s, f)
                return VBuiltin("datetime.now", now)
            if name == "fromtimestamp":
                def fromts(interp, a, k):
                    t = as_int(interp, a[0])
                    if not is_int(t):
                        raise OutOfReach("fromtimestamp of a non-integer")
                    return VDate(t, 0)
                return VBuiltin("datetime.fromtimestamp", fromts)
        return None

    def builtin_construct(self, interp, cls, args, kwargs):
        ctx = interp.ctx
        if cls is T_LIST:
            if not args:
                ctx.epoch += 1
                return interp.register(VList([], epoch=ctx.epoch))
            x = args[0]
            if isinstance(x, GenExp):
                from .loops import comprehension
                node = ast.ListComp(elt=x.node.elt, generators=x.node.generators)
                return comprehension(interp, node, x.env, "list")
            lo, hi, elem, items = iter_info(interp, x)
            ctx.epoch += 1
            if items is not None:
                return interp.register(VList(list(items), epoch=ctx.epoch))
            from .loops import count
            n = count(ctx, lo, hi)
            return interp.register(VList(None, n, (lambda j: elem(zint(lo) + j)), epoch=ctx.epoch))
        if cls is T_TUPLE:
            if not args:
                return ()
            lo, hi, elem, items = iter_info(interp, args[0])
            if items is None:
                raise OutOfReach("tuple() of a symbolic sequence")
            return tuple(items)
        if cls is T_INT:
            x = args[0] if args else 0
            x = as_int(interp, x)
            if is_int(x):
                return x
            if isinstance(x, VTimestamp):
                return x.secs
            if isinstance(x, VFloat):
                raise OutOfReach("int() of a float")
            interp.raise_("TypeError" if x is None else "ValueError", "int()")
        if cls is T_STR:
            return VOpaque("str()")
        if cls is T_BOOL:
            return interp.truth_term(args[0]) if args else False
        if cls is T_FLOAT:
            raise OutOfReach("float()")
        if cls.is_subclass(EXC["BaseException"]) if hasattr(cls, "is_subclass") else False:
            return VExc(cls, tuple(args))
        if cls is OBJECT:
            return VObj(OBJECT)
        raise OutOfReach(f"construction of builtin {cls.name}")

    # individual builtins -------------------------------------------------
    def b_len(self, interp, args, kw):
        (x,) = args
        ctx = interp.ctx
        if isinstance(x, (str, bytes, tuple, list, dict)):
            return len(x)
        if isinstance(x, VStr):
            return x.seq.n
        if isinstance(x, VBytes):
            return slen(ctx, x.atoms)
        if isinstance(x, VList):
            return x.length
        if isinstance(x, VRunsList):
            return x.n
        if isinstance(x, VNd):
            sh = getattr(x, "symshape", None)
            if sh is not None:
                if not ctx.branch(zint(sh.rank) >= 1, "array-has-rank"):
                    interp.raise_("TypeError", "len() of unsized object")
                return sh.dim(0)
            if x.ndim == 0:
                interp.raise_("TypeError", "len() of unsized object")
            return x.shape[0]
        if isinstance(x, VObj):
            f, _ = x.cls.lookup("__len__")
            if f is None:
                interp.raise_("TypeError", f"object of type '{x.cls.name}' has no len()")
            return interp.call(f, [x], {})
        if x is None or is_int(x) or isinstance(x, VFloat) or is_bool(x):
            interp.raise_("TypeError", "object has no len()")
        h = getattr(x, "py_len", None)
        if h is not None:
            return h(interp)
        raise OutOfReach(f"len of {type(x).__name__}")

    def b_isinstance(self, interp, args, kw):
        return interp.isinstance(args[0], args[1])

    def b_hasattr(self, interp, args, kw):
        return interp.hasattr(args[0], args[1])

    def b_getattr(self, interp, args, kw):
        try:
            return interp.getattr(args[0], args[1])
        except PyRaise as e:
            if len(args) > 2 and e.exc.cls.is_subclass(EXC["AttributeError"]):
                return args[2]
            raise

    def b_range(self, interp, args, kw):
        args = [as_int(interp, a) for a in args]
        for a in args:
            if not is_int(a):
                if isinstance(a, VFloat):
                    interp.raise_("TypeError", "float cannot be interpreted as an integer")
                raise OutOfReach("range of a non-integer")
        if len(args) == 1:
            return VRange(0, args[0])
        if len(args) == 2:
            return VRange(args[0], args[1])
        raise OutOfReach("range with step")

    def b_enumerate(self, interp, args, kw):
        return VEnumerate(args[0], kw.get("start", args[1] if len(args) > 1 else 0))

    def b_zip(self, interp, args, kw):
        return VZip(list(args))

    def b_iter(self, interp, args, kw):
        x = args[0]
        if x is None or is_int(x) or isinstance(x, VFloat) or is_bool(x):
            interp.raise_("TypeError", "object is not iterable")
        if isinstance(x, VNd) and x.ndim == 0:
            interp.raise_("TypeError", "iteration over a 0-d array")
        h = getattr(x, "py_iterable", None)
        if h is not None and not h(interp):
            interp.raise_("TypeError", "object is not iterable")
        return VIter(x)

    def b_next(self, interp, args, kw):
        return b_next(interp, args[0], args[1] if len(args) > 1 else None, len(args) > 1)

    def b_any(self, interp, args, kw):
        return b_any(interp, args[0])

    def b_all(self, interp, args, kw):
        return b_any(interp, args[0], want_all=True)

    def b_sum(self, interp, args, kw):
        return b_sum(interp, args[0])

    def b_max(self, interp, args, kw):
        ctx = interp.ctx
        if len(args) != 1:
            raise OutOfReach("max of several arguments")
        lo, hi, elem, items = iter_info(interp, args[0])
        if items is not None:
            if not items:
                if "default" in kw:
                    return kw["default"]
                interp.raise_("ValueError", "max() arg is an empty sequence")
            m = as_int(interp, items[0])
            for x in items[1:]:
                x = as_int(interp, x)
                m = If(zint(x) > zint(m), x, m) if not (isinstance(x, int) and isinstance(m, int)) else max(x, m)
            return m
        n = z3.simplify(zint(hi) - zint(lo))
        if not ctx.branch(n > 0, "max-nonempty"):
            if "default" in kw:
                return kw["default"]
            interp.raise_("ValueError", "max() arg is an empty sequence")
        m, w = ctx.fresh_int("max"), ctx.fresh_int("argmax")
        j = z3.Const(f"mj!{ctx.uid()}", I)
        ctx.assume(And(rng(lo, w, hi), m == zint(as_int(interp, elem(w)))))
        ctx.assume(z3.ForAll([j], z3.Implies(zbool(rng(lo, j, hi)), zint(as_int(interp, elem(j))) <= m)))
        return m

    def b_type(self, interp, args, kw):
        t = interp.type_of(args[0])
        return t if t is not None else VOpaque("type")

    def b_super(self, interp, args, kw):
        if not self.frames:
            raise OutOfReach("super() outside a method")
        fn, inst = self.frames[-1]
        return VSuper(fn.cls, inst)

    def b_property(self, interp, args, kw):
        return VProperty(fget=args[0] if args else None)

    def b_staticmethod(self, interp, args, kw):
        return VStatic(args[0])

    def b_classmethod(self, interp, args, kw):
        return VClassMethod(args[0])

    def b_abstractmethod(self, interp, args, kw):
        return args[0]

    def b_print(self, interp, args, kw):
        return None

    def b_repr(self, interp, args, kw):
        return VOpaque("repr")

    def b_sorted(self, interp, args, kw):
        raise OutOfReach("sorted")

    def b_min(self, interp, args, kw):
        raise OutOfReach("min")

    def b_abs(self, interp, args, kw):
        x = args[0]
        if is_int(x):
            return If(zint(x) < 0, -zint(x), zint(x)) if not isinstance(x, int) else abs(x)
        raise OutOfReach("abs")

    # ---------------------------------------------------------------- stdlib / numpy
    def std_module(self, interp, name):
        m = getattr(self, "m_" + name.replace(".", "_"), None)
        return VModule(name, m(interp)) if m else None

    def m_typing(self, interp):
        class _NS(dict):
            def __missing__(self, k):
                return VTyping(k)

            def __contains__(self, k):
                return True
        return _NS()

    def m_numpy_typing(self, interp):
        return self.m_typing(interp)

    def m_enum(self, interp):
        return {"Enum": ENUM_BASE, "IntEnum": INTENUM_BASE}

    def m_abc(self, interp):
        return {"ABC": ABC_BASE, "abstractmethod": VBuiltin("abstractmethod", self.b_abstractmethod)}

    def m_functools(self, interp):
        def wraps(interp, args, kw):
            target = args[0]

            def inner(interp, a, k):
                f = a[0]
                if isinstance(f, FuncModel):
                    f.wrapped = target
                return f
            return VBuiltin("wraps-inner", inner)
        def memo(interp, args, kw):
            """lru_cache / cache: the decorated function is loadable, but a call is out of reach (its result may be an object
            shared with earlier calls -- the heap model has no memo tables)"""
            def deco(interp, a, k):
                f = a[0]
                nm = getattr(f, "qualname", "?")

                def call(interp, a2, k2):
                    raise OutOfReach(f"call of the memoised function {nm}")
                return VBuiltin("memoised:" + nm, call)
            if len(args) == 1 and isinstance(args[0], FuncModel) and not kw:
                return deco(interp, args, kw)
            return VBuiltin("lru_cache-inner", deco)
        return {"wraps": VBuiltin("wraps", wraps), "lru_cache": VBuiltin("lru_cache", memo), "cache": VBuiltin("cache", memo)}

    def m_io(self, interp):
        def bytesio(interp, args, kw):
            if args:
                raise OutOfReach("BytesIO(initial bytes)")
            b = VBytesIO()
            interp.register(b)
            return b
        return {"BytesIO": VBuiltin("BytesIO", bytesio)}

    def m_struct(self, interp):
        def pack(interp, args, kw):
            fmt = args[0]
            if fmt == "<i":
                x = as_int(interp, args[1])
                if not is_int(x):
                    interp.raise_("StructError", "required argument is not an integer")
                if not interp.ctx.branch(And(zint(x) >= -2**31, zint(x) < 2**31), "struct.pack-in-range"):
                    interp.raise_("StructError", "argument out of range")
                return VBytes([AField("i4", 1, Seq.of([x]))])
            raise OutOfReach(f"struct.pack({fmt!r})")

        def unpack(interp, args, kw):
            fmt, data = args
            ctx = interp.ctx
            data = to_bytes(data)
            if fmt == "<i":
                if not ctx.branch(eq(slen(ctx, data.atoms), 4), "struct.unpack-size"):
                    interp.raise_("StructError", "unpack requires a buffer of 4 bytes")
                nd = npmodel.frombuffer(interp, data, VDType("i4"))
                return (nd.get(0),)
            size = None
            if isinstance(fmt, VFmt) and len(fmt.parts) == 2 and fmt.parts[1] == "s" and is_int(fmt.parts[0]):
                size = fmt.parts[0]
            elif isinstance(fmt, str) and fmt.endswith("s") and fmt[:-1].isdigit():
                size = int(fmt[:-1])
            if size is None:
                raise OutOfReach(f"struct.unpack({fmt!r})")
            if not ctx.branch(eq(slen(ctx, data.atoms), size), "struct.unpack-size"):
                interp.raise_("StructError", "unpack requires a buffer of the right size")
            return (data,)
        return {"pack": VBuiltin("struct.pack", pack), "unpack": VBuiltin("struct.unpack", unpack), "error": EXC["StructError"]}

    def m_datetime(self, interp):
        return {"datetime": T_DATETIME}

    def m_pathlib(self, interp):
        from . import fsmodel
        return fsmodel.pathlib_ns(interp)

    def m_shutil(self, interp):
        from . import fsmodel
        return fsmodel.shutil_ns(interp)

    def m_numpy(self, interp):
        ctx = interp.ctx
        npmodel.float_axioms(ctx)

        def dtype(interp, a, k):
            return parse_dtype(a[0])

        def frombuffer(interp, a, k):
            return npmodel.frombuffer(interp, a[0], k.get("dtype", a[1] if len(a) > 1 else None))

        def array(interp, a, k):
            return npmodel.nd_from_value(interp, a[0], k.get("dtype", a[1] if len(a) > 1 else None))

        def asarray(interp, a, k):
            # no copy when the argument already is an array of the dtype asked for (the same object is returned)
            x, dt = a[0], k.get("dtype", a[1] if len(a) > 1 else None)
            if isinstance(x, npmodel.VNd) and (dt is None or (x.fields is None and parse_dtype(dt).fields is None and parse_dtype(dt).kind == x.dt.kind and not parse_dtype(dt).subshape)):
                return x
            return npmodel.nd_from_value(interp, x, dt)

        def empty(interp, a, k, zero=False):
            shape = a[0]
            dt = parse_dtype(k.get("dtype", a[1] if len(a) > 1 else "<f8"))
            if isinstance(dt, ClassModel):
                raise OutOfReach("dtype class")
            if isinstance(shape, VList):
                shape = tuple(shape.items)
            if not isinstance(shape, tuple):
                shape = (shape,)
            shape = tuple(as_int(interp, s) for s in shape)
            for s in shape:
                if not is_int(s):
                    interp.raise_("TypeError", "shape must be integers")
                if not ctx.entails(zint(s) >= 0):
                    if not ctx.branch(zint(s) >= 0, "shape-nonneg"):
                        interp.raise_("ValueError", "negative dimensions are not allowed")
            ctx.epoch += 1
            if dt.fields is not None:
                fields = {}
                for nm, fdt in dt.fields:
                    f = ctx.fresh_fun("uninit_" + nm, len(shape) + len(fdt.subshape))
                    fields[nm] = VNd(shape + fdt.subshape, VDType(fdt.kind), (lambda *i, f=f: f(*i)) if not zero else (lambda *i: z3.IntVal(0)), epoch=ctx.epoch)
                    interp.register(fields[nm])
                out = VNd(shape, dt, None, fields, epoch=ctx.epoch)
                return out
            full = shape + dt.subshape
            if dt.kind == "obj":
                out = VNd(full, VDType("obj"), (lambda *i: None), epoch=ctx.epoch)
                interp.register(out)
                return out
            f = ctx.fresh_fun("uninit", len(full))
            out = VNd(full, VDType(dt.kind), (lambda *i: f(*i)) if not zero else (lambda *i: z3.IntVal(0)), epoch=ctx.epoch)
            interp.register(out)
            return out

        def zeros(interp, a, k):
            return empty(interp, a, k, zero=True)

        def full(interp, a, k):
            """np.full(shape, fill_value, dtype=...): a new array with every element the fill value"""
            fill = a[1] if len(a) > 1 else k.get("fill_value")
            dt = k.get("dtype", a[2] if len(a) > 2 else None)
            if dt is None:
                raise OutOfReach("np.full without dtype")
            out = empty(interp, [a[0]], dict(dtype=dt))
            npmodel._fill(interp, out, fill)
            return out

        def masked_invalid(interp, a, k):
            x = a[0]
            if not isinstance(x, VNd):
                raise OutOfReach("masked_invalid of a non-array")
            if x.dt.kind not in ("f4", "f8"):
                return VMasked(x, lambda *i: False)
            return VMasked(x, lambda *i: Or(isnan(zint(x.get(*i))), isinf(zint(x.get(*i)))))

        def clump_unmasked(interp, a, k):
            m = a[0]
            if not isinstance(m, VMasked) or m.nd.ndim != 1:
                raise OutOfReach("clump_unmasked of something that is not a 1-D masked array")
            return runs_of_mask(interp, m.nd.shape[0], lambda f: Not(m.masked_at(f)), "clump")

        def fromarrays(interp, a, k):
            arrs = a[0]
            dt = parse_dtype(k.get("dtype"))
            if isinstance(arrs, VList):
                arrs = arrs.items
            if dt.fields is None or len(arrs) != len(dt.fields):
                raise OutOfReach("rec.fromarrays shape")
            fields = {}
            n = None
            for x, (nm, fdt) in zip(arrs, dt.fields):
                if not isinstance(x, VNd):
                    raise OutOfReach("rec.fromarrays of non-arrays")
                if tuple(conc(s) for s in x.shape[1:]) != tuple(fdt.subshape):
                    raise OutOfReach(f"rec.fromarrays: field {nm} has shape {x.shape[1:]} but dtype says {fdt.subshape}")
                if n is not None and not ctx.entails(eq(zint(n), zint(x.shape[0]))):
                    raise OutOfReach("rec.fromarrays: arrays of different lengths")
                n = x.shape[0]
                fields[nm] = npmodel.astype(interp, x, VDType(fdt.kind)) if x.dt.kind != fdt.kind else x
            return VNd((n,), dt, None, fields)

        ma = VModule("numpy.ma", {"masked_invalid": VBuiltin("masked_invalid", masked_invalid),
                                  "clump_unmasked": VBuiltin("clump_unmasked", clump_unmasked)})
        rec = VModule("numpy.rec", {"fromarrays": VBuiltin("fromarrays", fromarrays)})
        from . import eqmodel
        ns = {"dtype": VBuiltin("np.dtype", dtype), "frombuffer": VBuiltin("np.frombuffer", frombuffer), "array": VBuiltin("np.array", array), "asarray": VBuiltin("np.asarray", asarray),
              "empty": VBuiltin("np.empty", empty), "zeros": VBuiltin("np.zeros", zeros), "full": VBuiltin("np.full", full), "nan": VFloat(NANW, "py"), "NaN": VFloat(NANW, "py"),
              "ndarray": T_NDARRAY, "ma": ma, "rec": rec, "uint16": "<u2", "float32": "<f4", "int32": "<i4", "int16": "<i2", "uint32": "<u4",
              "float64": "<f8"}
        ns.update(eqmodel.numpy_ns(interp))
        return ns


def runs_of_mask(interp, N, present, name, key=None):
    """list of slices satisfying the runs axioms (DESIGN.md 3.3) w.r.t. the presence predicate over N frames"""
    ctx = interp.ctx
    n = ctx.fresh_int(name + "_n")
    st = ctx.fresh_fun(name + "_start", 1)
    sp = ctx.fresh_fun(name + "_stop", 1)
    assume_runs(ctx, N, present, n, st, sp)
    return VRunsList(n, lambda j: VSlice(st(j), sp(j)))


def assume_runs(ctx, N, present, n, st, sp):
    i = z3.Const(f"ri!{ctx.uid()}", I)
    j = z3.Const(f"rj!{ctx.uid()}", I)
    f = z3.Const(f"rf!{ctx.uid()}", I)
    own = ctx.fresh_fun("run_of", 1)
    N = zint(N)
    ctx.assume(n >= 0)
    ctx.assume(z3.ForAll([i], z3.Implies(z3.And(0 <= i, i < n), z3.And(sp(i) - st(i) >= 1, st(i) >= 0, sp(i) <= N))))
    ctx.assume(z3.ForAll([i, j], z3.Implies(z3.And(0 <= i, i < j, j < n), sp(i) < st(j))))
    ctx.assume(z3.ForAll([i, f], z3.Implies(z3.And(0 <= i, i < n, st(i) <= f, f < sp(i)), zbool(present(f)))))
    ctx.assume(z3.ForAll([f], z3.Implies(z3.And(0 <= f, f < N, zbool(present(f))),
                                         z3.And(0 <= own(f), own(f) < n, st(own(f)) <= f, f < sp(own(f))))))
