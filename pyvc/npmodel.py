"""Library contracts (DESIGN.md 3.5): numpy arrays and dtypes, bytes/str codecs, struct, datetime, BytesIO.
These are the *assumed* contracts of the dependencies; they are validated differentially by harness/libcheck.py."""
import ast

import z3

from .core import (And, I, B, If, Implies, Not, Or, OutOfReach, PyRaise, Seq, VBound, VBuiltin, VDate, VEnum, VFloat, VFmt,
                   VList, VObj, VOpaque, VSlice, VStr, conc, eq, is_bool, is_int, rng, zbool, zint)
from .stream import (AField, AFold, ALit, APad, ARaw, ASub, AText, INT_RANGE, ITEMSIZE, InStream, OutStream, Unaligned, alen,
                     slen, subst_atoms)

NOATTR = object()

# ------------------------------------------------------------------------------------------------ float words
isnan = z3.Function("isnan", I, B)
NANW = z3.Const("NANW", I)
fconst = z3.Function("fconst", I, I)     # word of the n-th distinct float literal


def fzero(kind):
    """the word of +0.0 at this width (all-zero bytes)"""
    return z3.Const(f"FZERO_{kind}", I)


def float_axioms(ctx):
    w = z3.Const("fw", I)
    ctx.axiom_once("nan", z3.And(isnan(NANW), z3.Not(isnan(fzero("f4"))), z3.Not(isnan(fzero("f8"))),
                                 z3.ForAll([w], isnan(z3.Function("py_to_f4", I, I)(w)) == isnan(w)),
                                 z3.ForAll([w], isnan(z3.Function("f4_to_f8", I, I)(w)) == isnan(w)),
                                 z3.ForAll([w], z3.Not(isnan(z3.Function("int_to_f4", I, I)(w)))),
                                 z3.ForAll([w], z3.Not(isnan(z3.Function("int_to_f8", I, I)(w))))))


# ------------------------------------------------------------------------------------------------ cp1252
cp_enc = z3.Function("cp_enc", I, I)
cp_dec = z3.Function("cp_dec", I, I)
cp_enc_ok = z3.Function("cp_enc_ok", I, B)
cp_dec_ok = z3.Function("cp_dec_ok", I, B)
CP1252_NAMES = {"windows-1252", "cp1252", "windows_1252", "1252"}


def cp_axioms(ctx):
    c = z3.Const("cp_c", I)
    b = z3.Const("cp_b", I)
    ctx.axiom_once("cp1252", z3.And(
        z3.ForAll([c], z3.Implies(cp_enc_ok(c), z3.And(0 <= cp_enc(c), cp_enc(c) < 256, cp_dec_ok(cp_enc(c)), cp_dec(cp_enc(c)) == c, c >= 0))),
        z3.ForAll([c], z3.Implies(cp_enc_ok(c), (cp_enc(c) == 0) == (c == 0))),
        z3.ForAll([b], z3.Implies(z3.And(0 <= b, b < 256, cp_dec_ok(b)), z3.And(cp_enc_ok(cp_dec(b)), cp_enc(cp_dec(b)) == b))),
        cp_enc_ok(0), cp_dec_ok(0), cp_dec(0) == 0,
        z3.ForAll([c], z3.Implies(z3.And(0 <= c, c < 128), z3.And(cp_enc_ok(c), cp_enc(c) == c, cp_dec_ok(c), cp_dec(c) == c)))))


def other_codec(name):
    """an encoding other than cp1252: unrelated uninterpreted per-byte functions"""
    safe = "".join(ch if ch.isalnum() else "_" for ch in name)
    return (z3.Function(f"enc_{safe}", I, I), z3.Function(f"dec_{safe}", I, I), z3.Function(f"enc_ok_{safe}", I, B), z3.Function(f"dec_ok_{safe}", I, B))


def codec_of(interp, enc):
    if isinstance(enc, str):
        if enc.lower().replace("_", "-") in CP1252_NAMES or enc.lower() in CP1252_NAMES:
            cp_axioms(interp.ctx)
            return cp_enc, cp_dec, cp_enc_ok, cp_dec_ok
        return other_codec(enc.lower())
    raise OutOfReach("symbolic encoding name")


# ------------------------------------------------------------------------------------------------ dtypes
class VDType:
    def __init__(self, kind, subshape=(), fields=None):
        self.kind, self.subshape, self.fields = kind, tuple(subshape), fields   # fields: [(name, VDType)]

    @property
    def itemsize(self):
        if self.fields is not None:
            return sum(f.itemsize for _, f in self.fields)
        n = ITEMSIZE[self.kind]
        for s in self.subshape:
            n *= s
        return n

    @property
    def nitems(self):
        n = 1
        for s in self.subshape:
            n *= s
        return n

    @property
    def base(self):
        return VDType(self.kind) if self.fields is None else self

    def same(self, o):
        return isinstance(o, VDType) and self.kind == o.kind and self.subshape == o.subshape and (
            (self.fields is None and o.fields is None) or
            (self.fields is not None and o.fields is not None and len(self.fields) == len(o.fields) and
             all(a[0] == b[0] and a[1].same(b[1]) for a, b in zip(self.fields, o.fields))))

    def __repr__(self):
        return f"dtype({self.kind}{list(self.subshape) if self.subshape else ''}{[n for n, _ in self.fields] if self.fields else ''})"


_KINDS = {"i2": "i2", "u2": "u2", "i4": "i4", "u4": "u4", "f4": "f4", "f8": "f8", "u1": "u1"}


def parse_dtype(spec):
    """the subset of numpy dtype specifications used by the repository (cross-checked against numpy by libcheck)"""
    if isinstance(spec, VDType):
        return spec
    if isinstance(spec, VList) and spec.items is not None:
        spec = list(spec.items)
    if isinstance(spec, list):
        return VDType("struct", (), [(n, parse_dtype(d)) for n, d in spec])
    if isinstance(spec, tuple) and len(spec) == 2 and isinstance(spec[0], str) and not isinstance(spec[1], str):
        raise OutOfReach("dtype tuple form")
    if getattr(spec, "name", None) == "object" and type(spec).__name__ == "ClassModel":
        return VDType("obj")          # dtype=object (the builtin class)
    if not isinstance(spec, str):
        raise OutOfReach(f"dtype specification {spec!r}")
    s = spec.strip()
    sub = ()
    if s.startswith("("):
        close = s.index(")")
        sub = tuple(int(x) for x in s[1:close].split(",") if x.strip())
        s = s[close + 1:]
    lead = ""
    while s and s[0].isdigit():
        lead += s[0]
        s = s[1:]
    if lead:
        sub = (int(lead),)
    if s and s[0] in "<=|":
        s = s[1:]
    elif s and s[0] == ">":
        raise OutOfReach("big-endian dtype")
    mid = ""
    while s and s[0].isdigit():
        mid += s[0]
        s = s[1:]
    if mid:
        sub = (int(mid),)
    if s not in _KINDS:
        alias = {"float32": "f4", "float64": "f8", "int32": "i4", "int16": "i2", "uint32": "u4", "uint16": "u2", "object": "obj", "O": "obj"}
        if s in alias:
            s = alias[s]
        else:
            raise OutOfReach(f"dtype kind {spec!r}")
    return VDType(s, sub)


# ------------------------------------------------------------------------------------------------ bytes values
class VBytes:
    def __init__(self, atoms):
        self.atoms = list(atoms)


def to_bytes(v):
    if isinstance(v, VBytes):
        return v
    if isinstance(v, bytes):
        return VBytes([ALit(v)] if v else [])
    raise OutOfReach(f"bytes expected, got {type(v).__name__}")


def raw_seq(interp, atoms):
    """byte-level view (Seq of byte values) of an atom list made of text / pad / literal / raw atoms"""
    ctx = interp.ctx
    seq = Seq(0, lambda i: z3.IntVal(0))
    for a in atoms:
        if isinstance(a, AText):
            cp_axioms(ctx)
            part = Seq(a.seq.n, lambda i, a=a: cp_enc(zint(a.seq.get(i))))
        elif isinstance(a, APad):
            if a.dontcare:
                f = ctx.fresh_fun("dontcare", 1)
                part = Seq(a.n, lambda i, f=f: f(i))
                part.dontcare_fn = f
            else:
                part = Seq(a.n, lambda i: z3.IntVal(0))
        elif isinstance(a, ALit):
            part = Seq.of(list(a.data))
        elif isinstance(a, ARaw):
            part = a.seq
        else:
            raise OutOfReach(f"byte-level view of {a!r}")
        seq = seq.concat(part) if conc(seq.n) != 0 else part
    return seq


# ------------------------------------------------------------------------------------------------ ndarrays
class VNd:
    """ndarray: shape (tuple of int/terms), dtype, get(*idx) -> word term (or value for object arrays)"""

    def __init__(self, shape, dt, get, fields=None, epoch=0, label=None):
        self.shape, self.dt, self.get, self.fields, self.epoch, self.label = tuple(shape), dt, get, fields, epoch, label
        self._scatter = None

    @property
    def ndim(self):
        return len(self.shape)

    def size(self):
        n = 1
        for s in self.shape:
            n = n * s
        return n

    def flat(self):
        """row-major flattening as a Seq"""
        shape = self.shape
        if len(shape) == 0:
            return Seq(1, lambda i: self.get())
        if len(shape) == 1:
            t = getattr(self, "table", None)
            if t is not None:
                return t
            return Seq(shape[0], lambda i: self.get(i))
        if len(shape) == 2 and conc(shape[1]) is None:
            from .core import Seq2
            return Seq2(shape[0], shape[1], lambda i, j: self.get(i, j))
        inner = 1
        for s in shape[1:]:
            inner = inner * s
        strides = []
        acc = 1
        for s in reversed(shape):
            strides.append(acc)
            acc = acc * s
        strides = list(reversed(strides))

        def get(i):
            idx = []
            rem = zint(i)
            for st in strides:
                if isinstance(st, int) and st == 1:
                    idx.append(rem)
                else:
                    idx.append(rem / st)
                    rem = rem % st
            return self.get(*idx)
        return Seq(self.size(), get)

    # fold protocol (scatter capture)
    def begin_fold(self, ctx, k):
        if self._scatter is None:
            self._scatter = dict(depth=len(ctx.folds) - 1, records=[], base=self.get, fbase=dict(self.fields) if self.fields else None)
        return None

    def end_fold_prepare(self, ctx, k, lo, hi):
        return None

    def end_fold_commit(self, ctx, k, lo, hi, tok):
        sc = self._scatter
        if sc is None or len(ctx.folds) != sc["depth"]:
            return
        self._scatter = None
        if sc["records"]:
            _finalize_scatter(ctx, self, sc)


def _store_by_loop_variables(ctx, a, folds, idxs, g, val):
    """A[k1, k2] = val  under condition g inside the loops over k1, k2 (each index is the variable of one enclosing
    summarised loop, every loop variable indexes one axis): afterwards A[j1, j2] is val[k := j] where j lies in the loop
    ranges and g[k := j] holds, and the old element elsewhere.  Closed form, no quantifier."""
    from .loops import subst_value
    ks = [f[0] for f in folds]
    pos = {}
    for ax, ix in enumerate(idxs):
        hit = [n for n, k in enumerate(ks) if isinstance(ix, z3.ExprRef) and ix.eq(k)]
        if len(hit) != 1 or hit[0] in pos.values():
            raise OutOfReach("element store whose index is not a loop variable")
        pos[ax] = hit[0]
    if sorted(pos.values()) != list(range(len(ks))):
        raise OutOfReach("element store that does not use every enclosing loop variable (cells written repeatedly)")
    old = a.get
    is_obj = a.dt.kind == "obj"

    def get(*j):
        sub = [(ks[pos[ax]], zint(j[ax])) for ax in range(len(j))]

        def st(t):
            if isinstance(t, z3.ExprRef):
                return z3.substitute(t, *sub)
            if isinstance(t, (int, bool)) or t is None:
                return t
            for k, jj in sub:
                t = subst_value(t, k, jj)
            return t
        cond = And(st(zbool(g)) if not isinstance(g, bool) else g, *[rng(st(zint(f[1])), zint(j[ax2]), st(zint(f[2]))) for ax2 in range(len(j)) for f in [folds[pos[ax2]]]])
        return (_ite_obj if is_obj else (lambda c, x, y: If(c, x, y)))(cond, st(val), old(*j))
    a.get = get
    a._scatter["elementwise"] = True


def _finalize_scatter(ctx, arr, sc):
    """SCATTER rule: rows written inside (nested) summarised loops.  Each record: (folds, row_lo, row_hi, value_fn(row, *rest))."""
    recs = sc["records"]
    base = sc["base"]
    nrest = len(arr.shape) - 1
    F = ctx.fresh_fun("scattered", 1 + nrest)
    r = z3.Const(f"row!{ctx.uid()}", I)
    rest = [z3.Const(f"col{c}!{ctx.uid()}", I) for c in range(nrest)]
    written_any = False
    for folds, lo_t, hi_t, valfn, _tagf in recs:
        folds = list(folds)
        val = zint(valfn(r, *rest))
        row_guard = And(zint(lo_t) <= r, r < zint(hi_t))
        # a single-row store indexed by a loop variable:  for f in range(a, b): A[f] = ...   ==>   rows a <= r < b, f := r
        for pos, (kf, flo, fhi) in enumerate(folds):
            if isinstance(lo_t, z3.ExprRef) and lo_t.eq(kf) and z3.simplify(zint(hi_t) - kf).eq(z3.IntVal(1)):
                sub = lambda t, kf=kf: z3.substitute(t, (kf, r)) if isinstance(t, z3.ExprRef) else t
                val = sub(val)
                row_guard = And(zint(flo) <= r, r < zint(fhi))
                folds = [(k2, sub(zint(l2)), sub(zint(h2))) for i2, (k2, l2, h2) in enumerate(folds) if i2 != pos]
                break
        ks = [f[0] for f in folds]
        guard = And(*[rng(f[1], f[0], f[2]) for f in folds], row_guard)
        body = z3.Implies(zbool(guard), F(r, *rest) == val)
        ctx.assume(z3.ForAll(ks + [r] + rest, body))
        ex = z3.Exists(ks, zbool(guard)) if ks else zbool(guard)
        written_any = Or(written_any, ex)
    keep = z3.Implies(z3.Not(zbool(written_any)), F(r, *rest) == zint(base(r, *rest)))
    ctx.assume(z3.ForAll([r] + rest, keep))
    arr.get = lambda *idx: F(*idx)


class VMasked:
    def __init__(self, nd, masked_at):
        self.nd, self.masked_at = nd, masked_at    # masked_at(*idx) -> Bool


class VRuns:
    """result of clump_unmasked: list of slices; n runs with start/stop functions"""
    pass


def nd_from_value(interp, x, dt):
    """np.array(x, dtype=dt) for scalars / lists / arrays"""
    ctx = interp.ctx
    dt = parse_dtype(dt) if dt is not None else None
    if isinstance(x, VNd):
        if dt is None or dt.kind == x.dt.kind:
            return VNd(x.shape, x.dt if dt is None else dt, x.get, x.fields, label=x.label)
        return astype(interp, x, dt)
    if isinstance(x, VEnum) and x.cls.is_intenum:
        x = x.val
    if isinstance(x, bool):
        x = int(x)
    if is_int(x):
        if dt is None:
            dt = VDType("i8")
        if dt.kind in ("f4", "f8"):
            return VNd((), dt, lambda: int_to_float(x, dt.kind))
        return VNd((), dt, lambda: x)
    if isinstance(x, VFloat):
        if dt is None:
            dt = VDType("f8")
        if dt.kind not in ("f4", "f8"):
            raise OutOfReach("float stored into an integer array")
        return VNd((), dt, lambda: cast_float(x, dt.kind))
    if isinstance(x, (VList, tuple, list)):
        from .loops import iter_info
        lo, hi, elem, items = iter_info(interp, x)
        if dt is None:
            if items is not None and items and all(isinstance(y, VFloat) for y in items) and len({y.kind for y in items}) == 1:
                dt = VDType(items[0].kind if items[0].kind != "py" else "f8")
            elif items is None and isinstance(elem(z3.Int("probe!nd")), VFloat):
                k0 = elem(z3.Int("probe!nd")).kind
                dt = VDType(k0 if k0 != "py" else "f8")
            else:
                raise OutOfReach("np.array without dtype")
        if dt.fields is not None:
            if items is not None and len(items) == 0:
                return VNd((0,), dt, None, {nm: VNd((0,) + f.subshape, VDType(f.kind), lambda *i: z3.IntVal(0)) for nm, f in dt.fields})
            # a sequence of TUPLES, one value per scalar field: one record each (numpy treats a tuple as a record and a
            # list as a sequence -- only tuples are modelled)
            probe = items[0] if items else elem(z3.Int("probe!rec"))
            if isinstance(probe, tuple) and len(probe) == len(dt.fields) and all(not f.subshape for _, f in dt.fields) and (items is None or all(isinstance(y, tuple) and len(y) == len(dt.fields) for y in items)):
                n = z3.simplify(zint(hi) - zint(lo)) if not (isinstance(hi, int) and isinstance(lo, int)) else hi - lo
                fields = {}
                for pos, (nm, f) in enumerate(dt.fields):
                    def getf(j, pos=pos, f=f):
                        t = elem(zint(lo) + j) if items is None else (items[conc(j)] if conc(j) is not None else None)
                        if t is None:
                            return Seq.of([scalar_word(interp, y[pos], f.kind) for y in items]).get(j)
                        return scalar_word(interp, t[pos], f.kind)
                    fields[nm] = VNd((n,), VDType(f.kind), getf)
                ctx.epoch += 1
                return VNd((n,), dt, None, fields, epoch=ctx.epoch)
            raise OutOfReach("np.array of records")
        n = z3.simplify(zint(hi) - zint(lo)) if not (isinstance(hi, int) and isinstance(lo, int)) else hi - lo

        def get(i):
            v = elem(zint(lo) + i) if items is None else (items[conc(i)] if conc(i) is not None else Seq.of([scalar_word(interp, y, dt.kind) for y in items]).get(i))
            return scalar_word(interp, v, dt.kind)
        if items is not None and any(isinstance(y, (VNd, VList, tuple, list)) for y in items):
            raise OutOfReach("np.array of nested sequences")
        ctx.epoch += 1
        return VNd((n,), dt, get, epoch=ctx.epoch)
    if x is None or isinstance(x, (str, VStr)):
        interp.raise_("ValueError" if isinstance(x, (str, VStr)) else "TypeError", "cannot convert to array")
    raise OutOfReach(f"np.array of {type(x).__name__}")


int2f = {"f4": z3.Function("int_to_f4", I, I), "f8": z3.Function("int_to_f8", I, I)}
f2f = {("py", "f4"): z3.Function("py_to_f4", I, I), ("f8", "f4"): z3.Function("py_to_f4", I, I), ("f4", "f8"): z3.Function("f4_to_f8", I, I)}


def int_to_float(x, kind):
    return int2f[kind](zint(x))


def cast_float(v, kind):
    """word of float value v stored at ``kind``; identity when already at that width.  Python floats (kind py) are
    assumed representable at the on-disk width (valid_T), i.e. py -> f8 is the identity and py -> f4 is py_to_f4."""
    if v.kind == kind or (v.kind == "py" and kind == "f8") or (v.kind == "f8" and kind == "py"):
        return v.w
    key = (v.kind, kind)
    if key not in f2f:
        raise OutOfReach(f"float conversion {key}")
    return f2f[key](zint(v.w))


def scalar_word(interp, v, kind):
    if isinstance(v, VEnum) and v.cls.is_intenum:
        v = v.val
    if isinstance(v, bool):
        v = int(v)
    if isinstance(v, VNd) and v.ndim == 0:
        if v.dt.kind in ("f4", "f8"):
            v = VFloat(v.get(), v.dt.kind)
        else:
            v = v.get()
    if kind in ("f4", "f8"):
        if isinstance(v, VFloat):
            return cast_float(v, kind)
        if is_int(v):
            return int_to_float(v, kind)
    else:
        if is_int(v):
            return v
        if isinstance(v, VFloat):
            raise OutOfReach("float stored into an integer field")
    if isinstance(v, (str, VStr)) or v is None:
        interp.raise_("ValueError", "cannot convert to a number")
    raise OutOfReach(f"array element of {type(v).__name__}")


def astype(interp, a, dt):
    dt = parse_dtype(dt)
    if a.fields is not None:
        if dt.fields is None:
            raise OutOfReach("astype of a structured array to a plain dtype")
        return a
    if a.dt.kind == dt.kind:
        r = VNd(a.shape, dt, a.get, label=a.label)
        if getattr(a, "table", None) is not None:
            r.table = a.table
        return r
    if a.dt.kind in ("f4", "f8") and dt.kind in ("f4", "f8"):
        return VNd(a.shape, dt, lambda *i: cast_float(VFloat(a.get(*i), a.dt.kind), dt.kind))
    if a.dt.kind in INT_RANGE or a.dt.kind == "i8":
        if dt.kind in INT_RANGE:
            r = VNd(a.shape, dt, a.get)       # value kept; range is an obligation at the field (wraps in numpy)
            if getattr(a, "table", None) is not None:
                r.table = a.table
            return r
        if dt.kind in ("f4", "f8"):
            return VNd(a.shape, dt, lambda *i: int_to_float(a.get(*i), dt.kind))
    raise OutOfReach(f"astype {a.dt.kind} -> {dt.kind}")


def tobytes(interp, a):
    if a.fields is not None:
        # structured records: fields in dtype order, per record
        n = a.shape[0]
        names = [nm for nm, _ in a.dt.fields]

        def body(j):
            out = []
            for nm, fdt in a.dt.fields:
                fa = a.fields[nm]
                cnt = fdt.nitems
                row = _rowof(fa, j)
                out.append(AField(fdt.kind, cnt, row.flat()))
            return out
        if len(a.shape) != 1:
            raise OutOfReach("tobytes of a multi-dimensional structured array")
        cn = conc(n)
        if cn is not None and cn <= 4:
            atoms = []
            for j in range(cn):
                atoms += body(j)
            return VBytes(atoms)
        return VBytes([AFold(0, n, body, tag="records")])
    if a.dt.kind == "obj":
        raise OutOfReach("tobytes of an object array")
    return VBytes([AField(a.dt.kind, a.size(), a.flat())])


def word_of(v):
    if isinstance(v, VFloat):
        return v.w
    return v


def frombuffer(interp, data, dt):
    """np.frombuffer(bytes, dtype): the bytes must consist of whole items; result shape (n,)+dtype.shape"""
    ctx = interp.ctx
    dt = parse_dtype(dt)
    data = to_bytes(data)
    atoms = [a for a in data.atoms if not (isinstance(a, AField) and conc(a.count) == 0)]
    total = slen(ctx, atoms)
    isz = dt.itemsize
    if conc(total) is not None:
        if conc(total) % isz != 0:
            interp.raise_("ValueError", "buffer size must be a multiple of element size")
    else:
        if not ctx.entails(zint(total) % isz == 0):
            if ctx.branch(zint(total) % isz == 0, "frombuffer-multiple"):
                pass
            else:
                interp.raise_("ValueError", "buffer size must be a multiple of element size")
    n = z3.simplify(zint(total) / isz) if conc(total) is None else conc(total) // isz
    if dt.fields is not None:
        return _frombuffer_struct(interp, atoms, dt, n)
    per = dt.nitems
    shape = (n,) + dt.subshape
    if len(atoms) == 0:
        return VNd(shape, dt, lambda *i: z3.IntVal(0))
    if len(atoms) == 1 and isinstance(atoms[0], AField):
        a = atoms[0]
        seq = reinterpret(interp, a, dt.kind)
        return VNd(shape, dt, _unflatten(seq, shape))
    if len(atoms) == 1 and isinstance(atoms[0], AFold) and not dt.subshape:
        t = _fold_table(interp, atoms[0], dt.kind)
        if t is not None:
            r = VNd((t.n,), dt, lambda i: t.get(i))
            r.table = t
            return r
    if all(isinstance(a, AField) for a in atoms) and all(conc(a.count) is not None for a in atoms):
        items = []
        for a in atoms:
            s = reinterpret(interp, a, dt.kind)
            items += [s.get(i) for i in range(conc(a.count))]
        return VNd(shape, dt, _unflatten(Seq.of(items), shape))
    if all(isinstance(a, AField) or (isinstance(a, APad) and not a.dontcare) for a in atoms) and any(isinstance(a, AField) for a in atoms):
        # fields followed / separated by zero bytes read as one array: zero bytes are zero items
        zero = fzero(dt.kind) if dt.kind in ("f4", "f8") else z3.IntVal(0)
        seq = None
        for a in atoms:
            if isinstance(a, AField):
                part = reinterpret(interp, a, dt.kind)
                part = Seq(a.count, part.get)
            else:
                cnt = z3.simplify(zint(a.n) / ITEMSIZE[dt.kind])
                if not ctx.entails(zint(a.n) == cnt * ITEMSIZE[dt.kind]):
                    raise Unaligned("zero bytes that are not whole items")
                part = Seq(cnt, lambda i: zero)
            seq = part if seq is None else seq.concat(part)
        return VNd(shape, dt, _unflatten(seq, shape))
    if len(atoms) == 1 and isinstance(atoms[0], APad) and atoms[0].dontcare:
        f = ctx.fresh_fun("dontcare_items", 1)
        nd = VNd(shape, dt, _unflatten(Seq(n * per, lambda i: f(i)), shape))
        nd.tainted = True
        return nd
    if len(atoms) == 1 and isinstance(atoms[0], APad):
        zero = fzero(dt.kind) if dt.kind in ("f4", "f8") else z3.IntVal(0)
        return VNd(shape, dt, lambda *i: zero)
    raise Unaligned(f"frombuffer({dt!r}) over {atoms!r}: the bytes read do not form one field of the layout")


def _fold_table(interp, fold, kind):
    """a fold of equally long rows of items of one kind (a row: one field, or a fold of single items) read as one array:
    the rows x cols table (core.Seq2), or None"""
    from .core import Seq2, _mentions_const
    ctx = interp.ctx
    k = z3.Const(f"row!{ctx.uid()}", I)
    ctx.solver.push()
    ctx.solver.add(zbool(rng(fold.lo, k, fold.hi)))
    try:
        row = [a for a in fold.body(k) if not (isinstance(a, AField) and conc(a.count) == 0)]
        if len(row) != 1:
            return None
        r = row[0]
        if isinstance(r, AField):
            cols = r.count
            cell = lambda i, j: reinterpret(interp, fold.body(z3.simplify(zint(fold.lo) + zint(i)))[0], kind).get(j)
        elif isinstance(r, AFold):
            j0 = z3.Const(f"col!{ctx.uid()}", I)
            inner = r.body(j0)
            if len(inner) != 1 or not isinstance(inner[0], AField) or conc(inner[0].count) != 1 or ITEMSIZE[inner[0].kind] != ITEMSIZE[kind]:
                return None
            cols = z3.simplify(zint(r.hi) - zint(r.lo))
            rlo = r.lo
            if isinstance(rlo, z3.ExprRef) and _mentions_const(rlo, k):
                return None
            cell = lambda i, j: reinterpret(interp, fold.body(z3.simplify(zint(fold.lo) + zint(i)))[0].body(z3.simplify(zint(rlo) + zint(j)))[0], kind).get(0)
        else:
            return None
        if isinstance(cols, z3.ExprRef) and _mentions_const(cols, k):
            return None
        if isinstance(r, AField) and ITEMSIZE[r.kind] != ITEMSIZE[kind]:
            return None
    finally:
        ctx.solver.pop()
    return Seq2(z3.simplify(zint(fold.hi) - zint(fold.lo)), cols, cell)


def reinterpret(interp, a, kind):
    """items of field atom ``a`` seen as ``kind`` (same width): identity on the common range, two's complement otherwise"""
    if a.kind == kind:
        return a.seq
    if ITEMSIZE[a.kind] != ITEMSIZE[kind]:
        raise Unaligned(f"a {a.kind} field of the layout is read as {kind}")
    if a.kind in INT_RANGE and kind in INT_RANGE:
        w = 2 ** (8 * ITEMSIZE[kind])
        lo, hi = INT_RANGE[kind]

        def get(i, a=a):
            x = zint(a.seq.get(i))
            return If(x >= hi, x - w, If(x < lo, x + w, x))
        return Seq(a.seq.n, get)
    raise Unaligned(f"a {a.kind} field of the layout is read as {kind}")


def _unflatten(seq, shape):
    if len(shape) == 1:
        return lambda i: seq.get(i)
    strides = []
    acc = 1
    for s in reversed(shape):
        strides.append(acc)
        acc = acc * s
    strides = list(reversed(strides))

    def get(*idx):
        if len(idx) != len(shape):
            raise OutOfReach("partial index into an unflattened array")
        off = 0
        for i, st in zip(idx, strides):
            off = off + zint(i) * st
        return seq.get(off)
    return get


def _frombuffer_struct(interp, atoms, dt, n):
    ctx = interp.ctx
    if len(atoms) == 0:
        fields = {nm: VNd((0,) + f.subshape, f, lambda *i: z3.IntVal(0)) for nm, f in dt.fields}
        return VNd((0,), dt, None, fields)
    if len(atoms) == 1 and isinstance(atoms[0], AFold):
        fold = atoms[0]
        probe = fold.body(z3.Const(f"probe!{ctx.uid()}", I))
        _check_record_shape(probe, dt)
        fields = {}
        for pos, (nm, fdt) in enumerate(dt.fields):
            def get(j, *rest, pos=pos, fdt=fdt):
                a = fold.body(zint(fold.lo) + j)[pos]
                seq = reinterpret(interp, a, fdt.kind)
                if fdt.subshape:
                    return _unflatten(seq, fdt.subshape)(*rest)
                return seq.get(0)
            fields[nm] = VNd((n,) + fdt.subshape, fdt, get)
        return VNd((n,), dt, None, fields)
    # a concrete number of records written field by field
    flat = [a for a in atoms]
    nf = len(dt.fields)
    if len(flat) % nf == 0 and all(isinstance(a, AField) for a in flat):
        recs = [flat[i:i + nf] for i in range(0, len(flat), nf)]
        for r in recs:
            _check_record_shape(r, dt)
        fields = {}
        for pos, (nm, fdt) in enumerate(dt.fields):
            def get(j, *rest, pos=pos, fdt=fdt):
                cj = conc(j)
                if cj is None:
                    raise OutOfReach("symbolic record index into concretely many records")
                seq = reinterpret(interp, recs[cj][pos], fdt.kind)
                if fdt.subshape:
                    return _unflatten(seq, fdt.subshape)(*rest)
                return seq.get(0)
            fields[nm] = VNd((len(recs),) + fdt.subshape, fdt, get)
        return VNd((len(recs),), dt, None, fields)
    raise Unaligned(f"frombuffer({dt!r}) over {atoms!r}: not a sequence of records of the layout")


def _check_record_shape(body, dt):
    if len(body) != len(dt.fields):
        raise Unaligned(f"record of {len(dt.fields)} fields read where the layout has {len(body)} fields per element")
    for a, (nm, fdt) in zip(body, dt.fields):
        if not isinstance(a, AField) or ITEMSIZE[a.kind] != ITEMSIZE[fdt.kind] or (a.kind in ("f4", "f8")) != (fdt.kind in ("f4", "f8")):
            raise Unaligned(f"record field {nm} ({fdt.kind}) read over layout atom {a!r}")
        if conc(a.count) != fdt.nitems:
            raise Unaligned(f"record field {nm} has {fdt.nitems} items, the layout has {a.count}")


# ---- indexing
def as_int(interp, v):
    if isinstance(v, VEnum) and v.cls.is_intenum:
        return v.val
    if isinstance(v, bool):
        return int(v)
    if isinstance(v, VNd) and v.ndim == 0 and v.dt.kind not in ("f4", "f8", "obj"):
        return v.get()
    return v


def as_index(interp, v):
    return as_int(interp, v)


def nd_index(interp, a, idx):
    """a[idx] for ints / slices / tuples thereof / field names"""
    ctx = interp.ctx
    sh = getattr(a, "symshape", None)
    if sh is not None:
        i = as_index(interp, idx)
        if not is_int(i):
            raise OutOfReach("non-integer index into an array of symbolic rank")
        if not ctx.branch(zint(sh.rank) >= 1, "array-has-rank"):
            interp.raise_("IndexError", "too many indices for array")
        if not ctx.branch(And(zint(i) >= -zint(sh.dim(0)), zint(i) < zint(sh.dim(0))), "array-index-in-range"):
            interp.raise_("IndexError", "index out of bounds")
        sub = VNd((), a.dt, lambda *j: z3.IntVal(0))
        sub.symshape = VShape(z3.simplify(zint(sh.rank) - 1), lambda j: sh.dim(zint(j) + 1))
        return sub
    if isinstance(idx, str):
        if a.fields is None or idx not in a.fields:
            interp.raise_("IndexError" if a.fields is None else "ValueError", f"no field of name {idx}")
        return a.fields[idx]
    if isinstance(idx, VNd) and idx.ndim == 0:
        idx = idx.get()
    if isinstance(idx, VList):
        raise OutOfReach("fancy indexing")
    if not isinstance(idx, tuple):
        idx = (idx,)
    if len(idx) > len(a.shape):
        interp.raise_("IndexError", "too many indices for array")
    fixed = []       # per source axis: ('i', term) or ('s', lo, n)
    for ax, ix in enumerate(idx):
        n = a.shape[ax]
        ix = as_index(interp, ix)
        if isinstance(ix, VSlice):
            if ix.step is not None:
                raise OutOfReach("strided slice")
            lo, hi = _clip_slice(interp, ix, n)
            if conc(hi) is not None and conc(lo) is not None:
                ln = max(conc(hi) - conc(lo), 0)
            elif ctx.entails(zint(hi) >= zint(lo)):
                ln = z3.simplify(zint(hi) - zint(lo))
            else:
                ln = z3.simplify(If(zint(hi) > zint(lo), zint(hi) - zint(lo), 0))
            fixed.append(("s", lo, ln))
        elif is_int(ix):
            c, cn = conc(ix), conc(n)
            if c is not None and cn is not None:
                if not -cn <= c < cn:
                    interp.raise_("IndexError", f"index {c} is out of bounds for axis {ax} with size {cn}")
                ix = c % cn if cn else 0
            else:
                ok = And(zint(ix) >= -zint(n), zint(ix) < zint(n))
                if not ctx.branch(ok, "array-index-in-range"):
                    interp.raise_("IndexError", "index out of bounds")
                if not ctx.entails(zint(ix) >= 0):
                    ix = If(zint(ix) < 0, zint(ix) + zint(n), zint(ix))
            fixed.append(("i", ix))
        else:
            interp.raise_("IndexError", "only integers and slices are valid indices")
    for ax in range(len(idx), len(a.shape)):
        fixed.append(("s", 0, a.shape[ax]))
    new_shape = tuple(f[2] for f in fixed if f[0] == "s")

    def mapidx(*j):
        out, jj = [], list(j)
        for f in fixed:
            if f[0] == "i":
                out.append(f[1])
            else:
                out.append(zint(f[1]) + zint(jj.pop(0)) if not (isinstance(f[1], int) and f[1] == 0) else jj.pop(0))
        return out
    if a.fields is not None:
        sub = {nm: nd_index(interp, fa, idx) for nm, fa in a.fields.items()}
        if not new_shape:
            return tuple(_scalar_of(sub[nm]) for nm, _ in a.dt.fields)      # one record
        return VNd(new_shape, a.dt, None, sub)
    res = VNd(new_shape, VDType(a.dt.kind), lambda *j: a.get(*mapidx(*j)), label=a.label)
    res.view_of = (a, fixed)
    if not new_shape:
        r = _scalar_of(res)
        if a.dt.kind == "obj":
            from .loops import resolve_mixed
            r = resolve_mixed(ctx, r)
        return r
    return res


def _scalar_of(x):
    if isinstance(x, VNd) and x.ndim == 0:
        if x.dt.kind in ("f4", "f8"):
            return VFloat(x.get(), x.dt.kind)
        return x.get()
    return x


def _clip_slice(interp, sl, n):
    def clamp(x, default):
        if x is None:
            return default
        x = as_index(interp, x)
        c, cn = conc(x), conc(n)
        if c is not None and cn is not None:
            if c < 0:
                c = max(c + cn, 0)
            return min(c, cn)
        if interp.ctx.entails(And(zint(x) >= 0, zint(x) <= zint(n))):
            return x
        xx = zint(x)
        xx = If(xx < 0, If(xx + zint(n) < 0, 0, xx + zint(n)), xx)
        return z3.simplify(If(xx > zint(n), zint(n), xx))
    return clamp(sl.start, 0), clamp(sl.stop, n)


def nd_setitem(interp, a, idx, v):
    ctx = interp.ctx
    if isinstance(idx, VSlice) and idx.start is None and idx.stop is None:
        # a[:] = scalar
        if isinstance(v, VFloat) or is_int(v):
            _fill(interp, a, v)
            return True
    full = isinstance(idx, tuple) and len(idx) == len(a.shape) and len(idx) >= 2 and all(is_int(as_index(interp, i)) for i in idx)
    if a.dt.kind == "obj" or (full and a.fields is None):
        if not isinstance(idx, tuple):
            idx = (idx,)
        old = a.get
        idxs = [as_index(interp, i) for i in idx]
        if len(idxs) != len(a.shape):
            raise OutOfReach("partial store into an object array")
        for ax, ix in enumerate(idxs):
            n = a.shape[ax]
            if not ctx.branch(And(zint(ix) >= -zint(n), zint(ix) < zint(n)), "store-index-in-range"):
                interp.raise_("IndexError", "index out of bounds")
            if not ctx.entails(zint(ix) >= 0):
                raise OutOfReach("negative index in an element store")
        g = And(*[gg for gg, _ in ctx.guards]) if ctx.guards else True
        val = v if a.dt.kind == "obj" else _elem_word(interp, a, v, ())
        if a._scatter is not None and len(ctx.folds) > a._scatter["depth"]:
            _store_by_loop_variables(ctx, a, list(ctx.folds[a._scatter["depth"]:]), idxs, g, val)
            return True
        ite = _ite_obj if a.dt.kind == "obj" else (lambda c, x, y: If(c, x, y))
        a.get = lambda *j: ite(And(g, *[eq(zint(x), zint(y)) for x, y in zip(j, idxs)]), val, old(*j))
        return True
    if a.fields is not None:
        for nm, fa in a.fields.items():
            nd_setitem(interp, fa, idx, _field_of(v, nm))
        return True
    # row assignment a[i] = row   or slice assignment a[lo:hi] = block
    if isinstance(idx, tuple):
        raise OutOfReach("multi-axis array store")
    idx = as_index(interp, idx)
    n = a.shape[0]
    if isinstance(idx, VSlice):
        if idx.step is not None:
            raise OutOfReach("strided store")
        lo, hi = _clip_slice(interp, idx, n)
        width = z3.simplify(If(zint(hi) > zint(lo), zint(hi) - zint(lo), 0))
        # numpy: the value must have exactly `width` rows (or broadcast from 1); anything else raises ValueError
        vn = v.shape[0] if isinstance(v, VNd) and v.ndim >= 1 else None
        if vn is None:
            raise OutOfReach("slice store of a scalar")
        if not ctx.branch(eq(zint(vn), zint(width)), "store-shapes-match"):
            if ctx.branch(eq(zint(vn), 1), "store-broadcast-1"):
                raise OutOfReach("broadcasting store")
            interp.raise_("ValueError", "could not broadcast input array")
        lo_t, hi_t = lo, z3.simplify(zint(lo) + width)

        def valfn(r, *rest):
            return _elem_word(interp, a, v, (z3.simplify(zint(r) - zint(lo)),) + rest)
    elif is_int(idx):
        c, cn = conc(idx), conc(n)
        ok = And(zint(idx) >= -zint(n), zint(idx) < zint(n))
        if not ctx.branch(ok, "store-index-in-range"):
            interp.raise_("IndexError", "index out of bounds")
        if not ctx.entails(zint(idx) >= 0):
            idx = If(zint(idx) < 0, zint(idx) + zint(n), zint(idx))
        lo_t, hi_t = idx, z3.simplify(zint(idx) + 1)

        def valfn(r, *rest):
            return _elem_word(interp, a, v, rest)
    else:
        raise OutOfReach("array store index")
    if a._scatter is not None and len(ctx.folds) > a._scatter["depth"]:
        folds = list(ctx.folds[a._scatter["depth"]:])
        if a.fields is not None:
            for nm in a.fields:
                a._scatter.setdefault("frecords", {}).setdefault(nm, []).append((folds, lo_t, hi_t, (lambda r, *rest, nm=nm: _elem_word(interp, a.fields[nm], _field_of(v, nm), ((z3.simplify(zint(r) - zint(lo_t)),) if isinstance(idx, VSlice) else ()) + rest)), None))
        else:
            a._scatter["records"].append((folds, lo_t, hi_t, valfn, None))
        return True
    if a.fields is not None:
        for nm, fa in a.fields.items():
            fold_get = fa.get
            fv = _field_of(v, nm)
            fa.get = (lambda *j, fold_get=fold_get, fv=fv, fa=fa: If(And(zint(lo_t) <= zint(j[0]), zint(j[0]) < zint(hi_t)),
                                                                     _elem_word(interp, fa, fv, ((z3.simplify(zint(j[0]) - zint(lo_t)),) if isinstance(idx, VSlice) else ()) + tuple(j[1:])),
                                                                     fold_get(*j)))
        return True
    old = a.get
    a.get = lambda *j: If(And(zint(lo_t) <= zint(j[0]), zint(j[0]) < zint(hi_t)), valfn(*j), old(*j))
    return True


def _field_of(v, nm):
    if isinstance(v, VNd) and v.fields is not None:
        return v.fields[nm]
    if isinstance(v, VFloat) or is_int(v):
        return v
    raise OutOfReach("structured store of a non-structured value")


def _ite_obj(c, x, y):
    cc = conc(c) if not isinstance(c, bool) else c
    if cc is True:
        return x
    if cc is False:
        return y
    from .loops import MixedElem
    return MixedElem(c, x, y)


def _elem_word(interp, a, v, idx):
    """word stored into array ``a`` from value ``v`` at relative index ``idx`` (with numpy's broadcasting of scalars)"""
    kind = a.dt.kind
    if isinstance(v, VNd):
        if v.ndim == 0:
            return scalar_word(interp, v, kind)
        if len(idx) != v.ndim:
            if v.ndim < len(idx):
                idx = idx[len(idx) - v.ndim:]
            else:
                raise OutOfReach("store of a higher-rank value")
        w = v.get(*idx)
        if v.dt.kind == kind:
            return w
        return scalar_word(interp, VFloat(w, v.dt.kind) if v.dt.kind in ("f4", "f8") else w, kind)
    return scalar_word(interp, v, kind)


def _fill(interp, a, v):
    if a._scatter is not None and len(interp.ctx.folds) > a._scatter["depth"]:
        raise OutOfReach("array fill inside a summarised loop")
    if a.fields is not None:
        for nm, fa in a.fields.items():
            w = scalar_word(interp, v, fa.dt.kind)
            fa.get = lambda *j, w=w: w
        return
    w = scalar_word(interp, v, a.dt.kind)
    a.get = lambda *j: w


def nd_method(interp, a, name):
    ctx = interp.ctx

    def m_astype(interp, args, kw):
        return astype(interp, a, args[0] if args else kw["dtype"])

    def m_tobytes(interp, args, kw):
        return tobytes(interp, a)

    def m_reshape(interp, args, kw):
        shp = args[0] if len(args) == 1 else tuple(args)
        if isinstance(shp, VList):
            shp = tuple(shp.items)
        if isinstance(shp, (int,)) or is_int(shp):
            shp = (shp,)
        shp = tuple(as_int(interp, s) for s in shp)
        tot = 1
        for s in shp:
            tot = tot * s
        if not ctx.branch(eq(zint(tot), zint(a.size())), "reshape-size"):
            interp.raise_("ValueError", "cannot reshape array")
        f = a.flat()
        from .core import Seq2
        if isinstance(f, Seq2) and len(shp) == 2 and ctx.entails(And(eq(zint(shp[0]), zint(f.rows)), eq(zint(shp[1]), zint(f.cols)))):
            return VNd(shp, a.dt, lambda i, j: f.get2(i, j))
        return VNd(shp, a.dt, _unflatten(f, shp))

    def m_flatten(interp, args, kw):
        f = a.flat()
        r = VNd((f.n,), a.dt, lambda i: f.get(i))
        from .core import Seq2
        if isinstance(f, Seq2):
            r.table = f
        return r

    def m_copy(interp, args, kw):
        return VNd(a.shape, a.dt, a.get, dict(a.fields) if a.fields else None)

    def m_any(interp, args, kw):
        raise OutOfReach("ndarray.any")

    table = {"astype": m_astype, "tobytes": m_tobytes, "reshape": m_reshape, "flatten": m_flatten, "copy": m_copy, "ravel": m_flatten}
    if name in table:
        return VBuiltin("ndarray." + name, table[name])
    return NOATTR


# ------------------------------------------------------------------------------------------------ streams as Python objects
class VBytesIO(OutStream):
    """io.BytesIO() used as a sink (write / getvalue); fold-aware"""

    def __init__(self, label="BytesIO"):
        super().__init__(label)
        self.position_dirty = False

    def begin_fold(self, ctx, k):
        self.capture.append([])

    def end_fold_prepare(self, ctx, k, lo, hi):
        return self.capture.pop()

    def end_fold_commit(self, ctx, k, lo, hi, captured):
        if captured:
            self.write([AFold(lo, hi, (lambda j, captured=captured, k=k: subst_atoms(captured, k, j)), tag="loop")])


class VInFile:
    """read-only binary stream over a layout-shaped stream term"""

    def __init__(self, instream):
        self.s = instream
        self.entered = []         # fold levels descended into (ctx.folds indices)
        self.reads = 0

    def begin_fold(self, ctx, k):
        pass

    def end_fold_prepare(self, ctx, k, lo, hi):
        return None

    def end_fold_commit(self, ctx, k, lo, hi, tok):
        pass

    # predicated `if` bodies (interp._exec_guarded): a read made under a condition g consumes its atoms on the merged path,
    # which is only right if those atoms are empty whenever g is false
    def begin_guard(self, ctx, g):
        self.__dict__.setdefault("guard_snap", []).append([list(fr) for fr in self.s.frames])

    def end_guard(self, interp, g):
        ctx = interp.ctx
        snap = self.guard_snap.pop()
        if len(snap) > len(self.s.frames):
            raise OutOfReach("a conditional block that leaves a layout sequence")
        consumed = []
        for depth, old in enumerate(snap):
            cur = self.s.frames[depth]
            nc = len(old) - len(cur)
            if nc < 0 or any(x is not y for x, y in zip(old[nc:], cur)):
                raise OutOfReach("a conditional read that does not consume whole fields of the layout")
            consumed += old[:nc]
        if consumed:
            ctx.solver.push()
            ctx.solver.add(z3.Not(zbool(g)))
            try:
                for a in consumed:
                    if ctx.solver.check(z3.Not(zbool(eq(alen(ctx, a), 0)))) != z3.unsat:
                        raise Unaligned(f"a read made only under a condition consumes {a!r}, which is not provably empty when the condition is false")
            finally:
                ctx.solver.pop()

    def descend(self, interp):
        ctx = interp.ctx
        while len(self.entered) < len(ctx.folds):
            k, lo, hi = ctx.folds[len(self.entered)]
            if not self.s.cur:
                raise Unaligned("read inside a loop past the end of the layout")
            head = self.s.cur[0]
            if isinstance(head, AField) and not isinstance(head.count, int) and ctx.entails(eq(zint(head.count), zint(hi) - zint(lo))):
                # a loop reading a field of n items one item per iteration
                head = AFold(0, head.count, (lambda j, h=head: [AField(h.kind, 1, Seq(1, lambda i, j=j, h=h: h.seq.get(j)))]), tag="items")
                self.s.cur[0] = head
            if not isinstance(head, AFold):
                raise Unaligned(f"a loop reads where the layout has the single field {head!r}")
            if not ctx.entails(eq(zint(head.hi) - zint(head.lo), zint(hi) - zint(lo))):
                interp.ctx.oblige("decode.loop_count_matches_layout", eq(zint(head.hi) - zint(head.lo), zint(hi) - zint(lo)), kind="B.count")
                raise Unaligned(f"a loop of {hi}-{lo} iterations reads a layout sequence of {head.hi}-{head.lo} elements")
            self.s.frames.append(list(head.body(z3.simplify(zint(head.lo) + (k - zint(lo))))))
            for snap in self.__dict__.get("guard_snap", []):
                snap.append(list(self.s.frames[-1]))     # entered under a condition: the position itself is unconditional
            self.entered.append(len(ctx.folds[:len(self.entered) + 1]))

    def leave(self, interp, depth):
        """called when the loop at fold depth ``depth`` ends"""
        ctx = interp.ctx
        while len(self.entered) > depth:
            rest = self.s.frames.pop()
            for a in rest:
                if not ctx.entails(eq(alen(ctx, a), 0)):
                    raise Unaligned(f"a loop body leaves {a!r} of the layout element unread")
            self.entered.pop()
            self.s._pop()


def infile_method(interp, f, name):
    ctx = interp.ctx

    def read(interp, args, kw):
        if not args:
            raise OutOfReach("read() of the rest of a layout stream")
        n = as_int(interp, args[0])
        if not is_int(n):
            interp.raise_("TypeError", "read size must be an integer")
        f.descend(interp)
        if not ctx.entails(zint(n) >= 0):
            if not ctx.branch(zint(n) >= 0, "read-size-nonneg"):
                raise OutOfReach("read with a negative size")
        atoms = f.s.take(ctx, n, "read")
        f.reads += 1
        return VBytes(atoms)

    def seek(interp, args, kw):
        off = as_int(interp, args[0])
        whence = args[1] if len(args) > 1 else kw.get("whence", 0)
        if conc(whence) != 1:
            raise OutOfReach("absolute seek on a layout stream")
        f.descend(interp)
        if not ctx.entails(zint(off) >= 0):
            raise OutOfReach("backward seek")
        f.s.take(ctx, off, "seek")
        return None

    def tell(interp, args, kw):
        return slen(ctx, f.s.consumed)
    table = {"read": read, "seek": seek, "tell": tell}
    if name in table:
        return VBuiltin("file." + name, table[name])
    return NOATTR


# ------------------------------------------------------------------------------------------------ hooks used by the interpreter
def getattr_hook(interp, obj, name):
    from .loops import list_method
    ctx = interp.ctx
    if isinstance(obj, VList):
        return list_method(interp, obj, name)
    if isinstance(obj, VDType):
        if name == "itemsize":
            return obj.itemsize
        if name == "shape":
            return tuple(obj.subshape)
        if name == "base":
            return obj.base
        if name == "names":
            return tuple(n for n, _ in obj.fields) if obj.fields else None
        if name == "kind":
            return VOpaque("dtype.kind")
        return NOATTR
    if isinstance(obj, VNd):
        if getattr(obj, "symshape", None) is not None:
            if name == "shape":
                return obj.symshape
            if name == "ndim":
                return obj.symshape.rank
            if name == "dtype":
                return obj.dt
            raise OutOfReach(f"attribute {name} of an array of symbolic rank")
        if name == "shape":
            return tuple(obj.shape)
        if name == "ndim":
            return obj.ndim
        if name == "dtype":
            return obj.dt
        if name == "size":
            return obj.size()
        if name == "nbytes":
            return obj.size() * ITEMSIZE[obj.dt.kind]
        if name == "T":
            return transpose(obj)
        return nd_method(interp, obj, name)
    if isinstance(obj, VMasked):
        if name == "T":
            t = transpose(obj.nd)
            return VMasked(t, lambda *i: obj.masked_at(*reversed(i)))
        return NOATTR
    if isinstance(obj, VBytesIO):
        if name == "write":
            def write(interp, args, kw):
                b = to_bytes(args[0])
                if ctx.guards:
                    from .stream import guard_atoms
                    obj.write(guard_atoms(And(*[g for g, _ in ctx.guards]), b.atoms))
                else:
                    obj.write(b.atoms)
                return slen(ctx, b.atoms)
            return VBuiltin("BytesIO.write", write)
        if name == "getvalue":
            return VBuiltin("BytesIO.getvalue", lambda interp, a, k: VBytes(list(obj.atoms)))
        if name == "seek":
            def seek(interp, args, kw):
                raise OutOfReach("seek on an output buffer")
            return VBuiltin("BytesIO.seek", seek)
        return NOATTR
    if isinstance(obj, VInFile):
        return infile_method(interp, obj, name)
    if isinstance(obj, VSlice):
        if name in ("start", "stop", "step"):
            return getattr(obj, name)
        return NOATTR
    if isinstance(obj, (VBytes, bytes)):
        return bytes_method(interp, to_bytes(obj), name)
    if isinstance(obj, (VStr, str)):
        return str_method(interp, obj, name)
    if isinstance(obj, VDate):
        if name == "timestamp":
            return VBuiltin("datetime.timestamp", lambda interp, a, k: VTimestamp(obj.secs, obj.frac))
        return NOATTR
    if isinstance(obj, VFloat):
        return NOATTR
    return NOATTR


class VTimestamp:
    def __init__(self, secs, frac):
        self.secs, self.frac = secs, frac


def transpose(a):
    if a.ndim <= 1:
        return a
    shp = tuple(reversed(a.shape))
    return VNd(shp, a.dt, lambda *i: a.get(*reversed(i)), label=a.label)


def setattr_hook(interp, obj, name, value):
    return False


def bytes_method(interp, b, name):
    ctx = interp.ctx

    def index(interp, args, kw):
        needle = args[0]
        if not (isinstance(needle, bytes) and len(needle) == 1):
            raise OutOfReach("bytes.index of a multi-byte needle")
        target = needle[0]
        seq = raw_seq(interp, b.atoms)
        from .loops import search_first
        m = search_first(interp, 0, seq.n, lambda k: zint(seq.get(k)) == target, "bytes.index")
        if m is None:
            interp.raise_("ValueError", "subsection not found")
        return m

    def decode(interp, args, kw):
        enc = args[0] if args else kw.get("encoding", "utf-8")
        _, dec, _, dec_ok = codec_of(interp, enc)
        seq = raw_seq(interp, b.atoms)
        j = z3.Const(f"dj!{ctx.uid()}", I)
        allok = z3.ForAll([j], z3.Implies(zbool(rng(0, j, seq.n)), dec_ok(zint(seq.get(j)))))
        if not ctx.branch(allok, "decodable"):
            interp.raise_("UnicodeDecodeError", "undecodable byte")
        return VStr(Seq(seq.n, lambda i: dec(zint(seq.get(i)))))
    table = {"index": index, "decode": decode}
    if name in table:
        return VBuiltin("bytes." + name, table[name])
    return NOATTR


def str_method(interp, s, name):
    ctx = interp.ctx

    def encode(interp, args, kw):
        enc = args[0] if args else kw.get("encoding", "utf-8")
        encf, _, enc_ok, _ = codec_of(interp, enc)
        seq = interp.as_seq(s)
        j = z3.Const(f"ej!{ctx.uid()}", I)
        allok = z3.ForAll([j], z3.Implies(zbool(rng(0, j, seq.n)), enc_ok(zint(seq.get(j)))))
        if not ctx.branch(allok, "encodable"):
            interp.raise_("UnicodeEncodeError", "unencodable character")
        if encf is cp_enc:
            return VBytes([AText(seq)])
        return VBytes([ARaw(Seq(seq.n, lambda i: encf(zint(seq.get(i)))))])
    table = {"encode": encode}
    if name in table:
        return VBuiltin("str." + name, table[name])
    return NOATTR


def getitem_hook(interp, obj, idx):
    ctx = interp.ctx
    if isinstance(obj, VNd):
        return nd_index(interp, obj, idx)
    if isinstance(obj, (VBytes, bytes)):
        b = to_bytes(obj)
        if isinstance(idx, VSlice):
            seq = raw_seq(interp, b.atoms)
            lo = 0 if idx.start is None else idx.start
            hi = seq.n if idx.stop is None else idx.stop
            if not ctx.entails(And(0 <= zint(lo), zint(lo) <= zint(hi), zint(hi) <= zint(seq.n))):
                raise OutOfReach("bytes slice with unproved bounds")
            return VBytes([ARaw(seq.slice(lo, hi))])
        raise OutOfReach("bytes item access")
    if isinstance(obj, VShape):
        return shape_getitem(interp, obj, idx)
    if isinstance(obj, VMasked):
        sub = nd_index(interp, obj.nd, idx)
        c = conc(idx) if is_int(idx) else None
        if not is_int(idx):
            raise OutOfReach("masked array index")
        return VMasked(sub, lambda *j: obj.masked_at(idx, *j))
    return NOATTR


def setitem_hook(interp, obj, idx, v):
    if isinstance(obj, VNd):
        return nd_setitem(interp, obj, idx, v)
    return False


def binop_hook(interp, op, a, b):
    ctx = interp.ctx
    if isinstance(a, (VBytes, bytes)) and isinstance(b, (VBytes, bytes)) and isinstance(op, ast.Add):
        return VBytes(to_bytes(a).atoms + to_bytes(b).atoms)
    if isinstance(a, bytes) and is_int(b) and isinstance(op, ast.Mult) or (isinstance(b, bytes) and is_int(a) and isinstance(op, ast.Mult)):
        lit, n = (a, b) if isinstance(a, bytes) else (b, a)
        if any(lit):
            c = conc(n)
            if c is None:
                raise OutOfReach("repetition of non-zero bytes")
            return lit * c
        cnt = conc(n)
        if cnt is not None:
            return b"\x00" * (len(lit) * max(cnt, 0))
        return VBytes([APad(z3.simplify(If(zint(n) > 0, zint(n) * len(lit), 0)))])
    if isinstance(a, VEnum) and a.cls.is_intenum:
        return interp.binop(op, a.val, b)
    if isinstance(b, VEnum) and b.cls.is_intenum:
        return interp.binop(op, a, b.val)
    if isinstance(a, VFloat) or isinstance(b, VFloat):
        raise OutOfReach("floating-point arithmetic")
    if isinstance(a, VNd) or isinstance(b, VNd):
        raise OutOfReach("array arithmetic")
    return NOATTR


def compare_hook(interp, op, a, b):
    return NOATTR


def equals_hook(interp, a, b):
    if isinstance(a, VNd) or isinstance(b, VNd):
        if isinstance(a, VShape) or isinstance(b, VShape):
            return NOATTR
        from .eqmodel import elementwise_eq
        return elementwise_eq(interp, a, b)
    if isinstance(a, VShape) or isinstance(b, VShape):
        return shape_eq(interp, a, b)
    if isinstance(a, (VBytes, bytes)) and isinstance(b, (VBytes, bytes)):
        if isinstance(a, bytes) and isinstance(b, bytes):
            return a == b
        from .stream import stream_eq_goals, Unaligned
        ctx = interp.ctx
        saved, ctx.recording = getattr(ctx, "recording", None), []
        try:
            goals = stream_eq_goals(ctx, to_bytes(a).atoms, to_bytes(b).atoms, "bytes==")
            consts = ctx.recording
        except Unaligned:
            raise OutOfReach("== of byte strings that cannot be aligned field by field")
        finally:
            ctx.recording = saved
        body = And(*[g for _, g in goals])
        if isinstance(body, bool) or not consts:
            return body
        return z3.ForAll(consts, zbool(body))
    if isinstance(a, VFloat) and isinstance(b, VFloat):
        # IEEE ==: NaN is unequal to everything; -0.0 == +0.0 is ignored (words compared): assumption listed in the evidence
        return And(Not(isnan(zint(a.w))), Not(isnan(zint(b.w))), eq(cast_float(a, b.kind) if a.kind != b.kind and (a.kind, b.kind) in f2f else a.w, b.w))
    if isinstance(a, VDType) and isinstance(b, VDType):
        return a.same(b)
    return NOATTR


def contains_hook(interp, c, x):
    return NOATTR


def iter_hook(interp, v):
    if isinstance(v, VNd):
        if v.ndim == 0:
            interp.raise_("TypeError", "iteration over a 0-d array")
        n = v.shape[0]
        cn = conc(n)
        if cn is not None and cn <= 16:
            items = [nd_index(interp, v, i) for i in range(cn)]
            return 0, cn, (lambda k: items[conc(k)]), items
        return 0, n, (lambda k: _row(interp, v, k)), None
    if isinstance(v, VRunsList):
        return 0, v.n, v.at, None
    return None


def _row(interp, v, k):
    """row k of an array without bounds forking (k is a loop index known to be in range)"""
    if v.fields is not None:
        return tuple(_scalar_of(_rowof(fa, k)) for fa in (v.fields[nm] for nm, _ in v.dt.fields))
    return _scalar_of(_rowof(v, k))


def _rowof(a, k):
    return VNd(a.shape[1:], VDType(a.dt.kind), lambda *j: a.get(k, *j))


def unpack_hook(interp, v, n):
    return None


def truth_hook(interp, v):
    if isinstance(v, VBytes):
        return zint(slen(interp.ctx, v.atoms)) > 0
    if isinstance(v, VNd):
        if v.ndim == 0:
            raise OutOfReach("truth of a 0-d array")
        raise OutOfReach("truth value of an array")
    if isinstance(v, VFloat):
        raise OutOfReach("truth of a float")
    return None


def type_hook(interp, v):
    from .interp import T_NDARRAY, T_BYTES, OBJECT
    if isinstance(v, VNd):
        return T_NDARRAY
    if isinstance(v, VBytes):
        return T_BYTES
    if isinstance(v, VFloat):
        return NP_FLOATING
    if isinstance(v, VShape):
        from .interp import T_TUPLE
        return T_TUPLE
    if isinstance(v, (VBytesIO, VInFile, VSlice, VDType, VMasked, VTimestamp)):
        return OBJECT
    return None


def isinstance_hook(interp, v, cls):
    return None


def subst_hook(v, k, t, memo):
    from .loops import subst_value
    if isinstance(v, VNd):
        o = VNd(tuple(subst_value(s, k, t) for s in v.shape), v.dt, (lambda *i, v=v: subst_value(v.get(*i), k, t)) if v.get else None,
                {n: subst_value(f, k, t, memo) for n, f in v.fields.items()} if v.fields else None, v.epoch, v.label)
        if hasattr(v, "key"):
            o.key = subst_value(v.key, k, t, memo)
        return o
    if isinstance(v, VBytes):
        return VBytes(subst_atoms(v.atoms, k, t))
    if isinstance(v, VRunsList):
        return VRunsList(subst_value(v.n, k, t), lambda j, v=v: subst_value(v.at(j), k, t))
    return None


from .interp import builtin_class, OBJECT as _OBJ  # noqa: E402
NP_FLOATING = builtin_class("floating", [_OBJ])


class VShape:
    """shape tuple of symbolic rank: ``rank`` (int term) and ``dim(i)``"""

    def __init__(self, rank, dim):
        self.rank, self.dim = rank, dim

    def py_len(self, interp):
        return self.rank


def shape_eq(interp, a, b):
    ctx = interp.ctx
    if isinstance(a, VShape) and isinstance(b, VShape):
        j = z3.Const(f"sh!{ctx.uid()}", I)
        return And(eq(a.rank, b.rank), z3.ForAll([j], z3.Implies(zbool(rng(0, j, a.rank)), zbool(eq(a.dim(j), b.dim(j))))))
    sh, t = (a, b) if isinstance(a, VShape) else (b, a)
    if isinstance(t, VList) and t.items is not None:
        return False                       # a tuple never equals a list
    if not isinstance(t, tuple):
        return False
    return And(eq(sh.rank, len(t)), *[eq(sh.dim(i), as_int(interp, x)) for i, x in enumerate(t)])


def shape_getitem(interp, sh, idx):
    ctx = interp.ctx
    if isinstance(idx, VSlice):
        if idx.step is not None or idx.stop is not None:
            raise OutOfReach("slice of a symbolic shape other than [k:]")
        k = conc(idx.start) if idx.start is not None else 0
        if k is None or k < 0:
            raise OutOfReach("slice of a symbolic shape with a negative or symbolic start")
        return VShape(z3.simplify(If(zint(sh.rank) > k, zint(sh.rank) - k, 0)), lambda i, k=k: sh.dim(zint(i) + k))
    i = as_int(interp, idx)
    if not is_int(i):
        interp.raise_("TypeError", "tuple indices must be integers")
    ok = And(zint(i) >= -zint(sh.rank), zint(i) < zint(sh.rank))
    if not ctx.branch(ok, "shape-index-in-range"):
        interp.raise_("IndexError", "tuple index out of range")
    return sh.dim(If(zint(i) < 0, zint(i) + zint(sh.rank), zint(i)))


class VRunsList:
    """list of slice objects (result of clump_unmasked / the _segments contract)"""

    def __init__(self, n, at):
        self.n, self.at = n, at
