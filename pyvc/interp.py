"""Symbolic interpreter for the Python subset used by basictdf (DESIGN.md 2.4).  It interprets ``ast`` nodes of the
real source directly; callees with a registered contract are replaced by the contract, never their body."""
import ast
import builtins as _pybuiltins

import z3

from . import core
from .core import (And, Ctx, I, If, Implies, Infeasible, Not, Or, OutOfReach, PyRaise, Seq, VBound, VBuiltin, VClassMethod,
                   VDate, VEnum, VExc, VFloat, VFmt, VList, VModule, VObj, VOpaque, VProperty, VSlice, VStatic, VStr,
                   conc, eq, is_bool, is_int, rng, zbool, zint)


class _Return(Exception):
    def __init__(self, value):
        self.value = value


class ClassModel:
    def __init__(self, name, bases, module, qualname=None):
        self.name, self.bases, self.module = name, bases, module
        self.qualname = qualname or name
        self.attrs = {}
        self.is_enum = any(getattr(b, "is_enum", False) or getattr(b, "name", None) in ("Enum", "IntEnum") for b in bases)
        self.is_intenum = any(getattr(b, "is_intenum", False) or getattr(b, "name", None) == "IntEnum" for b in bases)
        self.members = {}           # enum members by name
        self.builtin = False

    def mro(self):
        out, seen = [], set()

        def walk(c):
            if id(c) in seen:
                return
            seen.add(id(c))
            out.append(c)
            for b in getattr(c, "bases", []):
                walk(b)
        walk(self)
        return out

    def lookup(self, name):
        for c in self.mro():
            if name in getattr(c, "attrs", {}):
                return c.attrs[name], c
        return None, None

    def is_subclass(self, other):
        return any(c is other for c in self.mro())

    def __repr__(self):
        return f"<class {self.qualname}>"


def builtin_class(name, bases=()):
    c = ClassModel(name, list(bases), None, name)
    c.builtin = True
    return c


OBJECT = builtin_class("object")
BaseExc = builtin_class("BaseException", [OBJECT])
ExceptionC = builtin_class("Exception", [BaseExc])
_exc = {"Exception": ExceptionC, "BaseException": BaseExc}


def _mkexc(name, *bases):
    _exc[name] = builtin_class(name, [(_exc[b]) for b in bases])


for _n, _b in [("ValueError", ["Exception"]), ("TypeError", ["Exception"]), ("LookupError", ["Exception"]),
               ("KeyError", ["LookupError"]), ("IndexError", ["LookupError"]), ("AttributeError", ["Exception"]),
               ("RuntimeError", ["Exception"]), ("NotImplementedError", ["RuntimeError"]), ("StopIteration", ["Exception"]),
               ("OSError", ["Exception"]), ("FileExistsError", ["OSError"]), ("FileNotFoundError", ["OSError"]),
               ("PermissionError", ["OSError"]), ("UnicodeError", ["ValueError"]), ("UnicodeEncodeError", ["UnicodeError"]),
               ("UnicodeDecodeError", ["UnicodeError"]), ("UnsupportedOperation", ["OSError", "ValueError"]),
               ("StructError", ["Exception"]), ("UnboundLocalError", ["Exception"]), ("ZeroDivisionError", ["Exception"]),
               ("AssertionError", ["Exception"]), ("OverflowError", ["Exception"])]:
    _mkexc(_n, *_b)
_exc["IOError"] = _exc["OSError"]
EXC = _exc

# builtin value types used with isinstance
T_INT, T_STR, T_LIST, T_TUPLE, T_BYTES, T_FLOAT, T_BOOL, T_DICT, T_NDARRAY, T_SET = (
    builtin_class(n, [OBJECT]) for n in ("int", "str", "list", "tuple", "bytes", "float", "bool", "dict", "ndarray", "set"))
T_BOOL.bases = [T_INT]
T_NONE = builtin_class("NoneType", [OBJECT])
T_DATETIME = builtin_class("datetime", [OBJECT])
ENUM_BASE = builtin_class("Enum", [OBJECT])
INTENUM_BASE = builtin_class("IntEnum", [ENUM_BASE])
ENUM_BASE.is_enum = True
INTENUM_BASE.is_enum = True
INTENUM_BASE.is_intenum = True
ABC_BASE = builtin_class("ABC", [OBJECT])
GENERIC_BASE = builtin_class("Generic", [OBJECT])


class FuncModel:
    def __init__(self, node, module, env, qualname, cls=None):
        self.node, self.module, self.env, self.qualname, self.cls = node, module, env, qualname, cls
        self.defaults, self.kw_defaults = [], {}
        self.name = node.name
        self.wrapped = None        # functools.wraps target

    def __repr__(self):
        return f"<function {self.qualname}>"


class Env:
    def __init__(self, globs, parent=None, module=None, qualname=None, is_function=False):
        self.vars, self.globs, self.parent = {}, globs, parent
        self.module = module if module is not None else (parent.module if parent is not None else None)
        self.qualname, self.is_function = qualname, is_function

    def lookup(self, name):
        e = self
        while e is not None:
            if name in e.vars:
                return e.vars[name]
            e = e.parent
        if name in self.globs:
            return self.globs[name]
        raise KeyError(name)


class Interp:
    """one interpreter per symbolic path (it owns the Ctx)"""

    def __init__(self, ctx, loader):
        self.ctx = ctx
        self.loader = loader               # ModuleLoader (source of the repo)
        self.contracts = loader.contracts  # qualname -> contract callable (interp, fn, args, kwargs)
        self.inline_only = set()           # qualnames forced inline (the function under verification)
        self.depth = 0
        self.mut = []                      # fold-aware mutable model objects (streams, lists, arrays)
        self.writes = []                   # log of heap writes: (object, what)
        from .stream import Sums
        ctx.sums = Sums(ctx)
        self.call_log = []

    # ------------------------------------------------------------------ helpers
    def raise_(self, name, *args):
        raise PyRaise(VExc(EXC[name], args))

    def register(self, obj):
        self.mut.append(obj)
        return obj

    def truth(self, v, label="truth"):
        """Python truthiness -> bool (forks if symbolic)"""
        return self.ctx.branch(self.truth_term(v), label)

    def truth_term(self, v):
        from . import npmodel
        if v is None:
            return False
        h = getattr(v, "py_truth", None)
        if h is not None:
            return h(self)
        if isinstance(v, bool) or isinstance(v, z3.BoolRef):
            return v
        if is_int(v):
            return v != 0 if not isinstance(v, int) else v != 0
        if isinstance(v, (str, bytes, tuple, list, dict)):
            return len(v) > 0
        if isinstance(v, VStr):
            return zint(v.seq.n) > 0
        if isinstance(v, VList):
            n = v.length
            return n > 0 if isinstance(n, int) else n > 0
        if isinstance(v, VObj):
            f, _ = v.cls.lookup("__bool__")
            if f is None:
                f, _ = v.cls.lookup("__len__")
                if f is None:
                    return True
                return self.truth_term(self.call(f, [v], {}))
            return self.truth_term(self.call(f, [v], {}))
        if isinstance(v, (ClassModel, FuncModel, VEnum, VBuiltin, VBound, VModule)):
            return True
        t = npmodel.truth_hook(self, v)
        if t is not None:
            return t
        raise OutOfReach(f"truthiness of {type(v).__name__}")

    # ------------------------------------------------------------------ calls
    def call(self, fn, args, kwargs):
        if isinstance(fn, VBound):
            return self.call(fn.fn, [fn.self_val] + list(args), kwargs)
        if isinstance(fn, VBuiltin):
            return fn.fn(self, list(args), dict(kwargs))
        if isinstance(fn, VStatic):
            return self.call(fn.fn, args, kwargs)
        if isinstance(fn, ClassModel):
            return self.instantiate(fn, args, kwargs)
        if type(fn).__name__ == "VTyping":
            return fn
        if isinstance(fn, FuncModel):
            qn = fn.qualname
            w = getattr(fn, "wrapped", None)
            if w is not None and isinstance(w, FuncModel) and w.qualname in self.contracts and w.qualname not in self.inline_only:
                # a decorated method (functools.wraps): the contract of the method covers the decorator wrapper as well
                self.call_log.append(w.qualname)
                return self.contracts[w.qualname](self, fn, list(args), dict(kwargs))
            if qn in self.contracts and qn not in self.inline_only:
                self.call_log.append(qn)
                return self.contracts[qn](self, fn, list(args), dict(kwargs))
            return self.invoke(fn, args, kwargs)
        raise OutOfReach(f"call of {fn!r}")

    def bind_args(self, fn, args, kwargs):
        a = fn.node.args
        env = Env(fn.module.ns, fn.env, module=fn.module, qualname=fn.qualname, is_function=True)
        params = [p.arg for p in a.posonlyargs + a.args]
        args = list(args)
        kwargs = dict(kwargs)
        ndef = len(fn.defaults)
        for i, p in enumerate(params):
            if i < len(args):
                env.vars[p] = args[i]
            elif p in kwargs:
                env.vars[p] = kwargs.pop(p)
            else:
                di = i - (len(params) - ndef)
                if di < 0:
                    self.raise_("TypeError", f"missing argument {p}")
                env.vars[p] = fn.defaults[di]
        extra = args[len(params):]
        if a.vararg:
            env.vars[a.vararg.arg] = tuple(extra)
        elif extra:
            self.raise_("TypeError", "too many positional arguments")
        for p in a.kwonlyargs:
            if p.arg in kwargs:
                env.vars[p.arg] = kwargs.pop(p.arg)
            elif p.arg in fn.kw_defaults:
                env.vars[p.arg] = fn.kw_defaults[p.arg]
            else:
                self.raise_("TypeError", f"missing keyword argument {p.arg}")
        if a.kwarg:
            env.vars[a.kwarg.arg] = dict(kwargs)
        elif kwargs:
            self.raise_("TypeError", f"unexpected keyword arguments {sorted(kwargs)}")
        return env

    def invoke(self, fn, args, kwargs):
        env = self.bind_args(fn, args, kwargs)
        self.depth += 1
        if self.depth > 40:
            raise OutOfReach("call depth")
        self.loader.frames.append((fn, args[0] if args else None))
        try:
            self.exec_block(fn.node.body, env)
            return None
        except _Return as r:
            return r.value
        finally:
            self.depth -= 1
            self.loader.frames.pop()

    def instantiate(self, cls, args, kwargs):
        if cls.builtin:
            return self.loader.builtin_construct(self, cls, args, kwargs)
        if cls.is_enum:
            return self.enum_lookup(cls, args[0])
        if cls.is_subclass(BaseExc):
            return VExc(cls, tuple(args))
        self.ctx.epoch += 1
        obj = VObj(cls, epoch=self.ctx.epoch)
        init, owner = cls.lookup("__init__")
        if init is not None and isinstance(init, FuncModel):
            self.call(init, [obj] + list(args), kwargs)
        elif args or kwargs:
            if init is None:
                self.raise_("TypeError", "object() takes no arguments")
        return obj

    def enum_lookup(self, cls, v):
        from . import npmodel
        v = npmodel.as_int(self, v)
        c = conc(v)
        members = list(cls.members.values())
        if c is not None:
            for m in members:
                if m.val == c:
                    return m
            self.raise_("ValueError", f"{c} is not a valid {cls.name}")
        valid = Or(*[zint(v) == m.val for m in members])
        if self.ctx.branch(valid, f"valid {cls.name}"):
            return VEnum(cls, v)
        self.raise_("ValueError", f"not a valid {cls.name}")

    # ------------------------------------------------------------------ attributes
    def getattr(self, obj, name):
        from . import npmodel
        h = getattr(obj, "py_getattr", None)
        if h is not None:
            r = h(self, name)
            if r is not npmodel.NOATTR:
                return r
        if isinstance(obj, VObj):
            cattr, owner = obj.cls.lookup(name)
            if isinstance(cattr, VProperty):
                if cattr.fget is None:
                    self.raise_("AttributeError", name)
                return self.call(cattr.fget, [obj], {})
            if name in obj.fields:
                return obj.fields[name]
            if cattr is not None or owner is not None:
                return self.bind(cattr, obj, obj.cls)
            if name == "__class__":
                return obj.cls
            if getattr(obj, "layout", None) is not None or (getattr(obj, "spec_built", False) and name not in getattr(obj, "spec_known", ())):
                # a specification-built valid instance (symlayout.Spec.new) carries exactly the attributes its layout view
                # names; state the class keeps besides those is outside the specification: undecided, not an AttributeError
                raise OutOfReach(f"attribute {name} of a specification-built {obj.cls.name}: state outside the layout view")
            self.raise_("AttributeError", f"{obj.cls.name} has no attribute {name}")
        if isinstance(obj, ClassModel):
            if name == "__name__":
                return obj.name
            if obj.is_enum and name in obj.members:
                return obj.members[name]
            cattr, owner = obj.lookup(name)
            if owner is None:
                hook = self.loader.builtin_class_attr(self, obj, name)
                if hook is not None:
                    return hook
                self.raise_("AttributeError", f"type {obj.name} has no attribute {name}")
            return self.bind(cattr, None, obj)
        if isinstance(obj, VModule):
            if name in obj.ns:
                return obj.ns[name]
            raise OutOfReach(f"module attribute {obj.name}.{name} is not modelled")
        if isinstance(obj, VEnum):
            if name == "value":
                return obj.val
            if name == "name":
                return obj.name if obj.name is not None else VOpaque("enum name")
            cattr, owner = obj.cls.lookup(name)
            if owner is not None:
                return self.bind(cattr, obj, obj.cls)
        if isinstance(obj, VExc):
            if name == "args":
                return tuple(obj.args)
        if type(obj).__name__ == "VSuper":
            mro = obj.inst.cls.mro() if isinstance(obj.inst, VObj) else obj.cls.mro()
            after = mro[mro.index(obj.cls) + 1:] if obj.cls in mro else mro
            for c in after:
                if name in getattr(c, "attrs", {}):
                    return self.bind(c.attrs[name], obj.inst, c)
            if name == "__init__":
                return VBuiltin("object.__init__", lambda interp, a, k: None)
            self.raise_("AttributeError", name)
        if type(obj).__name__ == "VTyping":
            return obj
        if isinstance(obj, FuncModel):
            if name in ("__name__", "__qualname__", "__doc__"):
                return VOpaque(name)
        if isinstance(obj, VProperty):
            if name == "setter":
                return VBuiltin("property.setter", lambda interp, a, k: VProperty(obj.fget, a[0]))
            if name == "getter":
                return VBuiltin("property.getter", lambda interp, a, k: VProperty(a[0], obj.fset))
        r = npmodel.getattr_hook(self, obj, name)
        if r is not npmodel.NOATTR:
            return r
        if isinstance(obj, (str, bytes, int, float, tuple)) or obj is None or is_int(obj) or isinstance(obj, (VStr, VFloat)) or hasattr(obj, "py_type"):
            self.raise_("AttributeError", f"'{type(obj).__name__}' object has no attribute '{name}'")
        raise OutOfReach(f"attribute {name} of {type(obj).__name__}")

    def bind(self, attr, inst, cls):
        if isinstance(attr, FuncModel):
            return VBound(attr, inst) if inst is not None else attr
        if isinstance(attr, VStatic):
            return attr.fn
        if isinstance(attr, VClassMethod):
            return VBound(attr.fn, cls)
        if isinstance(attr, VProperty):
            return attr
        return attr

    def setattr(self, obj, name, value):
        from . import npmodel
        h = getattr(obj, "py_setattr", None)
        if h is not None and h(self, name, value):
            return
        if isinstance(obj, VObj):
            cattr, owner = obj.cls.lookup(name)
            if isinstance(cattr, VProperty):
                if cattr.fset is None:
                    self.raise_("AttributeError", f"can't set attribute {name}")
                self.call(cattr.fset, [obj, value], {})
                return
            obj.fields[name] = value
            self.writes.append((obj, name))
            return
        if npmodel.setattr_hook(self, obj, name, value):
            return
        raise OutOfReach(f"attribute assignment on {type(obj).__name__}")

    def hasattr(self, obj, name):
        if isinstance(obj, VObj):
            if name in obj.fields:
                return True
            cattr, owner = obj.cls.lookup(name)
            if owner is not None:
                return True
            opt = getattr(obj, "optional", None)
            if opt and name in opt:
                return self.ctx.branch(opt[name], f"hasattr {name}")
            return False
        try:
            self.getattr(obj, name)
            return True
        except PyRaise as e:
            if e.exc.cls.is_subclass(EXC["AttributeError"]):
                return False
            raise

    # ------------------------------------------------------------------ isinstance / types
    def type_of(self, v):
        from . import npmodel
        if v is None:
            return T_NONE
        if isinstance(v, bool) or isinstance(v, z3.BoolRef):
            return T_BOOL
        if is_int(v):
            return T_INT
        if isinstance(v, (str, VStr, VFmt)):
            return T_STR
        if isinstance(v, bytes):
            return T_BYTES
        if isinstance(v, float) or (isinstance(v, VFloat) and v.kind == "py"):
            return T_FLOAT
        if isinstance(v, tuple):
            return T_TUPLE
        if isinstance(v, VList):
            return T_LIST
        if isinstance(v, dict):
            return T_DICT
        if isinstance(v, VObj):
            return v.cls
        if isinstance(v, VEnum):
            return v.cls
        if isinstance(v, VExc):
            return v.cls
        if isinstance(v, VDate):
            return T_DATETIME
        t = npmodel.type_hook(self, v)
        if t is not None:
            return t
        pt = getattr(v, "py_type", None)
        if pt is not None:
            return {"tuple": T_TUPLE, "list": T_LIST}[pt]
        return None

    def isinstance(self, v, cls):
        from . import npmodel
        dyn = getattr(v, "dyn_isinstance", None)
        if dyn is not None and not isinstance(cls, tuple):
            r = dyn(cls)
            if r is not None:
                return r
        if isinstance(cls, tuple):
            r = False
            for c in cls:
                r = Or(r, self.isinstance(v, c))
            return r
        h = npmodel.isinstance_hook(self, v, cls)
        if h is not None:
            return h
        t = self.type_of(v)
        if t is None:
            raise OutOfReach(f"isinstance on {type(v).__name__}")
        if isinstance(v, VEnum) and v.cls.is_intenum and cls is T_INT:
            return True
        return t.is_subclass(cls)

    # ------------------------------------------------------------------ statements
    def exec_block(self, stmts, env):
        for s in stmts:
            self.exec(s, env)

    def exec(self, s, env):
        m = getattr(self, "s_" + type(s).__name__, None)
        if m is None:
            raise OutOfReach(f"statement {type(s).__name__} (line {getattr(s, 'lineno', '?')})")
        return m(s, env)

    def s_Expr(self, s, env):
        if isinstance(s.value, ast.Constant) and isinstance(s.value.value, str):
            return
        self.eval(s.value, env)

    def s_Pass(self, s, env):
        pass

    def s_Return(self, s, env):
        raise _Return(self.eval(s.value, env) if s.value is not None else None)

    def s_Assign(self, s, env):
        v = self.eval(s.value, env)
        for t in s.targets:
            self.assign(t, v, env)

    def s_AnnAssign(self, s, env):
        if s.value is not None:
            self.assign(s.target, self.eval(s.value, env), env)

    def s_AugAssign(self, s, env):
        load = ast.copy_location(_as_load(s.target), s.target)
        cur = self.eval(load, env)
        v = self.binop(s.op, cur, self.eval(s.value, env))
        self.assign(s.target, v, env)

    def assign(self, t, v, env):
        if isinstance(t, ast.Name):
            env.vars[t.id] = v
        elif isinstance(t, ast.Attribute):
            self.setattr(self.eval(t.value, env), t.attr, v)
        elif isinstance(t, (ast.Tuple, ast.List)):
            items = self.unpack(v, len(t.elts))
            for e, x in zip(t.elts, items):
                self.assign(e, x, env)
        elif isinstance(t, ast.Subscript):
            self.setitem(self.eval(t.value, env), self.eval_index(t.slice, env), v)
        else:
            raise OutOfReach(f"assignment target {type(t).__name__}")

    def unpack(self, v, n):
        from . import npmodel
        if isinstance(v, tuple):
            if len(v) != n:
                self.raise_("ValueError", "unpack")
            return list(v)
        if isinstance(v, VList) and v.items is not None:
            if len(v.items) != n:
                self.raise_("ValueError", "unpack")
            return list(v.items)
        r = npmodel.unpack_hook(self, v, n)
        if r is not None:
            return r
        raise OutOfReach(f"unpacking {type(v).__name__}")

    def s_If(self, s, env):
        t = self.truth_term(self.eval(s.test, env))
        if self._guardable(s, t):
            return self._exec_guarded(s, t, env)
        if self.ctx.branch(t, f"if@{s.lineno}"):
            self.exec_block(s.body, env)
        else:
            self.exec_block(s.orelse, env)

    _PLAIN = (ast.Expr, ast.Assign, ast.AugAssign, ast.AnnAssign, ast.Pass)
    _JUMPS = (ast.Return, ast.Raise, ast.Break, ast.Continue, ast.Yield, ast.YieldFrom, ast.Lambda, ast.FunctionDef, ast.Try, ast.With, ast.For, ast.While)

    def _guardable(self, s, t):
        """`if c: <plain statements>` (no else) inside a summarised loop with an iteration-dependent, undecided c: executed
        once under the assumption c with every effect made conditional on c (predicated execution) instead of forking"""
        ctx = self.ctx
        if not ctx.folds or s.orelse or isinstance(t, bool) or conc(t) is not None or getattr(ctx, "pure", 0):
            return False
        from .core import _mentions_const
        if not any(_mentions_const(zbool(t), f[0]) for f in ctx.folds):
            return False
        for st in s.body:
            if not isinstance(st, self._PLAIN) or any(isinstance(n, self._JUMPS) for n in ast.walk(st)):
                return False
        return not ctx.entails(t) and not ctx.entails(Not(t))

    def _exec_guarded(self, s, g, env):
        ctx = self.ctx
        before = dict(env.vars)
        mark = len(ctx.pc)
        ctx.solver.push()
        ctx.assume(g)
        ctx.guards.append((g, mark))
        ctx.trace.append(f"if@{s.lineno}=predicated")
        muts = list(self.mut)
        for m in muts:
            h = getattr(m, "begin_guard", None)
            if h is not None:
                h(ctx, g)
        try:
            self.exec_block(s.body, env)
        except BaseException:
            # raised (or left the engine's reach) under the guard: on this path the guard stays assumed
            ctx.guards.pop()
            local = ctx.pc[mark:]
            del ctx.pc[mark:]
            ctx.solver.pop()
            for f in local:
                ctx.assume(f)
            raise
        ctx.guards.pop()
        local = ctx.pc[mark + 1:]
        del ctx.pc[mark:]
        ctx.solver.pop()
        for f in local:
            ctx.assume(Implies(g, f))
        for m in muts:
            h = getattr(m, "end_guard", None)
            if h is not None:
                h(self, g)
        for n, new in list(env.vars.items()):
            if n not in before:
                env.vars[n] = VOpaque(f"'{n}' (assigned only when a condition holds)")
            elif new is not before[n]:
                old = before[n]
                if is_int(old) and is_int(new) and not isinstance(old, bool) and not isinstance(new, bool):
                    env.vars[n] = If(g, zint(new), zint(old))
                elif is_bool(old) and is_bool(new):
                    env.vars[n] = If(g, zbool(new), zbool(old))
                else:
                    raise OutOfReach(f"variable {n} reassigned under a condition inside a summarised loop")

    def s_Raise(self, s, env):
        if s.exc is None:
            raise OutOfReach("bare raise outside handler")
        e = self.eval(s.exc, env)
        if isinstance(e, ClassModel):
            e = VExc(e, ())
        if not isinstance(e, VExc):
            raise OutOfReach("raise of a non-exception")
        self.ctx.trace.append(f"raise {e.cls.name}@{s.lineno}")
        raise PyRaise(e)

    def s_Try(self, s, env):
        try:
            try:
                self.exec_block(s.body, env)
            except PyRaise as pr:
                for h in s.handlers:
                    if h.type is None:
                        match = True
                    else:
                        ht = self.eval(h.type, env)
                        match = conc(zbool(self.isinstance(pr.exc, ht))) if not isinstance(self.isinstance(pr.exc, ht), bool) else self.isinstance(pr.exc, ht)
                    if match:
                        if h.name:
                            env.vars[h.name] = pr.exc
                        self.ctx.trace.append(f"except {getattr(h.type, 'id', '*')}@{h.lineno}")
                        self._handling = pr
                        self.exec_block(h.body, env)
                        break
                else:
                    raise
            else:
                self.exec_block(s.orelse, env)
        finally:
            if s.finalbody:
                self.exec_block(s.finalbody, env)

    def s_With(self, s, env):
        if len(s.items) != 1:
            raise OutOfReach("with: several items")
        item = s.items[0]
        mgr = self.eval(item.context_expr, env)
        enter = self.getattr(mgr, "__enter__")
        val = self.call(enter, [], {})
        if item.optional_vars is not None:
            self.assign(item.optional_vars, val, env)
        exit_ = self.getattr(mgr, "__exit__")
        try:
            self.exec_block(s.body, env)
        except PyRaise as pr:
            r = self.call(exit_, [pr.exc.cls, pr.exc, VOpaque("traceback")], {})
            if r is not None and self.truth(r, "with-suppress"):
                return
            raise
        except _Return:
            self.call(exit_, [None, None, None], {})
            raise
        else:
            self.call(exit_, [None, None, None], {})

    def s_Delete(self, s, env):
        for t in s.targets:
            if isinstance(t, ast.Subscript):
                self.delitem(self.eval(t.value, env), self.eval_index(t.slice, env))
            else:
                raise OutOfReach("del of a non-subscript")

    def s_FunctionDef(self, s, env):
        env.vars[s.name] = self.make_function(s, env, None)

    def s_Import(self, s, env):
        for a in s.names:
            env.vars[(a.asname or a.name).split(".")[0]] = self.loader.import_module(self, a.name if a.asname else a.name.split(".")[0])

    def s_ImportFrom(self, s, env):
        mod = self.loader.import_module(self, s.module)
        for a in s.names:
            if a.name not in mod.ns:
                raise OutOfReach(f"from {s.module} import {a.name}: not modelled")
            env.vars[a.asname or a.name] = mod.ns[a.name]

    def s_ClassDef(self, s, env):
        env.vars[s.name] = self.make_class(s, env)

    def s_For(self, s, env):
        from . import loops
        loops.exec_for(self, s, env)

    def s_Assert(self, s, env):
        if not self.truth(self.eval(s.test, env), f"assert@{s.lineno}"):
            self.raise_("AssertionError")

    # ------------------------------------------------------------------ definitions
    def make_function(self, node, env, cls, modns=None):
        module = env.module
        fenv = env
        while fenv is not None and not fenv.is_function:
            fenv = fenv.parent
        qual = f"{module.name}.{node.name}" if fenv is None else f"{fenv.qualname}.<locals>.{node.name}"
        fn = FuncModel(node, module, fenv, qual, cls)
        a = node.args
        fn.defaults = [self.eval(d, env) for d in a.defaults]
        fn.kw_defaults = {p.arg: self.eval(d, env) for p, d in zip(a.kwonlyargs, a.kw_defaults) if d is not None}
        result = fn
        for dec in reversed(node.decorator_list):
            d = self.eval(dec, env)
            result = self.apply_decorator(d, result, env)
        return result

    def apply_decorator(self, d, f, env):
        if isinstance(d, VBuiltin):
            return d.fn(self, [f], {})
        return self.call(d, [f], {})

    def make_class(self, node, env):
        bases = [self.eval(b, env) for b in node.bases]
        bases = [b for b in bases if isinstance(b, ClassModel)] or [OBJECT]
        cls = ClassModel(node.name, bases, env.module, f"{env.module.name}.{node.name}")
        cenv = Env(env.globs, env)
        cenv.is_class = True
        for st in node.body:
            if isinstance(st, ast.FunctionDef):
                cenv.vars[st.name] = self.make_function_in_class(st, cenv, cls)
            else:
                self.exec(st, cenv)
        for k, v in cenv.vars.items():
            if cls.is_enum and not isinstance(v, (FuncModel, VProperty, VStatic, VClassMethod)) and not k.startswith("_") and is_int(v):
                cls.members[k] = VEnum(cls, v, k)
            else:
                cls.attrs[k] = v
        return cls

    def make_function_in_class(self, node, cenv, cls):
        module = cenv.module
        fn = FuncModel(node, module, None, f"{module.name}.{cls.name}.{node.name}", cls)
        a = node.args
        fn.defaults = [self.eval(d, cenv) for d in a.defaults]
        fn.kw_defaults = {p.arg: self.eval(d, cenv) for p, d in zip(a.kwonlyargs, a.kw_defaults) if d is not None}
        result = fn
        for dec in reversed(node.decorator_list):
            d = self.eval(dec, cenv)
            result = self.apply_decorator(d, result, cenv)
        return result

    # ------------------------------------------------------------------ expressions
    def eval(self, e, env):
        m = getattr(self, "e_" + type(e).__name__, None)
        if m is None:
            raise OutOfReach(f"expression {type(e).__name__} (line {getattr(e, 'lineno', '?')})")
        return m(e, env)

    def e_Constant(self, e, env):
        v = e.value
        if isinstance(v, float):
            return self.loader.float_const(self, v)
        return v

    def e_Name(self, e, env):
        try:
            return env.lookup(e.id)
        except KeyError:
            b = self.loader.builtin(self, e.id)
            if b is not None:
                return b
            self.raise_("UnboundLocalError", e.id)

    def e_Attribute(self, e, env):
        return self.getattr(self.eval(e.value, env), e.attr)

    def e_Tuple(self, e, env):
        return tuple(self.eval(x, env) for x in e.elts)

    def e_List(self, e, env):
        self.ctx.epoch += 1
        return self.register(VList([self.eval(x, env) for x in e.elts], epoch=self.ctx.epoch))

    def e_Dict(self, e, env):
        return {self.eval(k, env): self.eval(v, env) for k, v in zip(e.keys, e.values)}

    def e_JoinedStr(self, e, env):
        parts = []
        for v in e.values:
            if isinstance(v, ast.Constant):
                parts.append(v.value)
            else:
                x = self.eval(v.value, env)     # evaluation may raise; the text itself is opaque
                parts.append(x)
        if all(isinstance(p, str) for p in parts):
            return "".join(parts)
        return VFmt(parts)

    def e_IfExp(self, e, env):
        return self.eval(e.body, env) if self.truth(self.eval(e.test, env), f"ifexp@{e.lineno}") else self.eval(e.orelse, env)

    def e_BoolOp(self, e, env):
        if getattr(self.ctx, "pure", 0):
            # inside a quantified (generator) expression: no forking; operands are side-effect free boolean tests
            # a later operand is evaluated only when the earlier ones did not decide: it sees them as assumptions
            terms = []
            pushed = 0
            try:
                for x in e.values:
                    v = self.eval(x, env)
                    t = self.truth_term(v)
                    c = t if isinstance(t, bool) else conc(t)
                    if isinstance(e.op, ast.And) and c is False:
                        return False
                    if isinstance(e.op, ast.Or) and c is True:
                        return True
                    terms.append(t)
                    if c is None:
                        self.ctx.solver.push()
                        pushed += 1
                        self.ctx.solver.add(zbool(t) if isinstance(e.op, ast.And) else z3.Not(zbool(t)))
            finally:
                for _ in range(pushed):
                    self.ctx.solver.pop()
            return And(*terms) if isinstance(e.op, ast.And) else Or(*terms)
        if isinstance(e.op, ast.And):
            v = True
            for x in e.values:
                v = self.eval(x, env)
                if not self.truth(v, f"and@{e.lineno}"):
                    return v
            return v
        v = False
        for x in e.values:
            v = self.eval(x, env)
            if self.truth(v, f"or@{e.lineno}"):
                return v
        return v

    def e_UnaryOp(self, e, env):
        v = self.eval(e.operand, env)
        if isinstance(e.op, ast.Not):
            return Not(self.truth_term(v)) if not isinstance(v, (VObj,)) else (not self.truth(v))
        if isinstance(e.op, ast.USub):
            if is_int(v):
                return -v
            if isinstance(v, float):
                return -v
        raise OutOfReach("unary operator")

    def e_BinOp(self, e, env):
        return self.binop(e.op, self.eval(e.left, env), self.eval(e.right, env))

    def binop(self, op, a, b):
        from . import npmodel
        r = npmodel.binop_hook(self, op, a, b)
        if r is not npmodel.NOATTR:
            return r
        if is_int(a) and is_int(b):
            if isinstance(op, ast.Add):
                return a + b
            if isinstance(op, ast.Sub):
                return a - b
            if isinstance(op, ast.Mult):
                return a * b
            if isinstance(op, ast.FloorDiv):
                if conc(b) == 0:
                    self.raise_("ZeroDivisionError")
                if isinstance(a, int) and isinstance(b, int):
                    return a // b
                return zint(a) / zint(b)   # z3 integer division floors for positive divisors
            if isinstance(op, ast.Mod):
                if isinstance(a, int) and isinstance(b, int):
                    return a % b
                return zint(a) % zint(b)
            ca, cb = conc(a), conc(b)
            if ca is not None and cb is not None and not isinstance(a, bool) and not isinstance(b, bool):
                # bit operations and powers of concrete integers (sizes, masks, chunk lengths)
                if isinstance(op, ast.LShift) and 0 <= cb <= 64:
                    return ca << cb
                if isinstance(op, ast.RShift) and cb >= 0:
                    return ca >> cb
                if isinstance(op, ast.BitAnd):
                    return ca & cb
                if isinstance(op, ast.BitOr):
                    return ca | cb
                if isinstance(op, ast.BitXor):
                    return ca ^ cb
                if isinstance(op, ast.Pow) and 0 <= cb <= 64:
                    return ca ** cb
            if isinstance(op, ast.LShift) and cb is not None and 0 <= cb <= 64:
                return zint(a) * (1 << cb)
        if isinstance(a, str) and isinstance(b, str) and isinstance(op, ast.Add):
            return a + b
        if isinstance(a, tuple) and isinstance(b, tuple) and isinstance(op, ast.Add):
            return a + b
        if isinstance(a, (VFmt, str)) and isinstance(b, (VFmt, str)) and isinstance(op, ast.Add):
            return VFmt([a, b])
        raise OutOfReach(f"operator {type(op).__name__} on {type(a).__name__}, {type(b).__name__}")

    def e_Compare(self, e, env):
        left = self.eval(e.left, env)
        res = True
        for op, r in zip(e.ops, e.comparators):
            right = self.eval(r, env)
            c = self.compare(op, left, right)
            res = And(res, c) if not isinstance(c, (VObj,)) else c
            if len(e.ops) > 1 and not self.truth(c, f"cmp@{e.lineno}"):
                return False
            left = right
        return res

    def compare(self, op, a, b):
        from . import npmodel
        if isinstance(op, ast.Is):
            return self.identical(a, b)
        if isinstance(op, ast.IsNot):
            return Not(self.identical(a, b))
        if isinstance(op, ast.In):
            return self.contains(b, a)
        if isinstance(op, ast.NotIn):
            return Not(self.contains(b, a))
        if isinstance(op, ast.Eq):
            return self.equals(a, b)
        if isinstance(op, ast.NotEq):
            r = self.equals(a, b)
            return Not(r) if is_bool(r) else Not(self.truth_term(r))
        r = npmodel.compare_hook(self, op, a, b)
        if r is not npmodel.NOATTR:
            return r
        if isinstance(a, VEnum) and a.cls.is_intenum:
            a = a.val
        if isinstance(b, VEnum) and b.cls.is_intenum:
            b = b.val
        if is_int(a) and is_int(b):
            if isinstance(a, int) and isinstance(b, int):
                return {ast.Lt: a < b, ast.LtE: a <= b, ast.Gt: a > b, ast.GtE: a >= b}[type(op)]
            a, b = zint(a), zint(b)
            return {ast.Lt: a < b, ast.LtE: a <= b, ast.Gt: a > b, ast.GtE: a >= b}[type(op)]
        raise OutOfReach(f"comparison {type(op).__name__} on {type(a).__name__}, {type(b).__name__}")

    def identical(self, a, b):
        if a is None or b is None:
            if a is None and b is None:
                return True
            other = b if a is None else a
            opt = getattr(other, "maybe_none", None)
            if opt is not None:
                return opt
            return False
        if isinstance(a, VEnum) and isinstance(b, VEnum):
            return And(a.cls is b.cls, eq(a.val, b.val))
        if isinstance(a, bool) and isinstance(b, bool):
            return a == b
        h = getattr(a, "py_is", None) or getattr(b, "py_is", None)
        if h is not None and a is not b:
            r = h(self, a, b)
            if r is not None:
                return r
        return a is b

    def equals(self, a, b):
        from . import npmodel
        r = npmodel.equals_hook(self, a, b)
        if r is not npmodel.NOATTR:
            return r
        if isinstance(a, VObj):
            f, _ = a.cls.lookup("__eq__")
            if f is not None:
                return self.call(f, [a, b], {})
            return a is b
        if isinstance(b, VObj):
            f, _ = b.cls.lookup("__eq__")
            if f is not None:
                return self.call(f, [b, a], {})
            return a is b
        if isinstance(a, VEnum) or isinstance(b, VEnum):
            if isinstance(a, VEnum) and isinstance(b, VEnum):
                return And(a.cls is b.cls, eq(a.val, b.val))
            e, o = (a, b) if isinstance(a, VEnum) else (b, a)
            if e.cls.is_intenum and is_int(o):
                return eq(e.val, o)
            return False
        if a is None or b is None:
            return self.identical(a, b)
        if is_bool(a) and is_bool(b):
            return eq(a, b)
        if is_int(a) and is_int(b):
            return eq(a, b)
        if isinstance(a, (str, VStr)) and isinstance(b, (str, VStr)):
            return self.str_eq(a, b)
        if isinstance(a, bytes) and isinstance(b, bytes):
            return a == b
        if isinstance(a, tuple) and isinstance(b, tuple):
            if len(a) != len(b):
                return False
            return And(*[self.truth_term(self.equals(x, y)) for x, y in zip(a, b)])
        if isinstance(a, VList) and isinstance(b, VList):
            return self.list_eq(a, b)
        if isinstance(a, VDate) and isinstance(b, VDate):
            return And(eq(a.secs, b.secs), eq(a.frac, b.frac))
        if isinstance(a, (ClassModel, FuncModel)) or isinstance(b, (ClassModel, FuncModel)):
            return a is b
        ta, tb = self.type_of(a), self.type_of(b)
        if ta is not None and tb is not None and ta is not tb and not (ta.is_subclass(tb) or tb.is_subclass(ta)):
            return False
        h = getattr(a, "py_equals", None) or getattr(b, "py_equals", None)
        if h is not None:
            return h(self, a, b)
        raise OutOfReach(f"== on {type(a).__name__}, {type(b).__name__}")

    def as_seq(self, s):
        if isinstance(s, str):
            return Seq.of([ord(c) for c in s])
        return s.seq

    def str_eq(self, a, b):
        if isinstance(a, str) and isinstance(b, str):
            return a == b
        sa, sb = self.as_seq(a), self.as_seq(b)
        k = z3.Const(f"ceq!{self.ctx.uid()}", I)
        body = z3.Implies(zbool(rng(0, k, sa.n)), zbool(eq(sa.get(k), sb.get(k))))
        return And(eq(sa.n, sb.n), z3.ForAll([k], body))

    def list_eq(self, a, b):
        if a is b:
            # identity short-circuit of list.__eq__ holds element-wise (x is y or x == y)
            return True
        if a.items is not None and b.items is not None:
            if len(a.items) != len(b.items):
                return False
            out = True
            for x, y in zip(a.items, b.items):
                out = And(out, True if x is y else self.truth_term(self.equals(x, y)))
            return out
        from .loops import sym_list_eq
        return sym_list_eq(interp=self, a=a, b=b)

    def contains(self, container, x):
        from . import npmodel
        if isinstance(container, (str,)) and isinstance(x, str):
            return x in container
        if isinstance(container, tuple):
            r = False
            for y in container:
                r = Or(r, True if y is x else self.truth_term(self.equals(y, x)))
            return r
        if isinstance(container, VObj):
            f, _ = container.cls.lookup("__contains__")
            if f is not None:
                return self.truth_term(self.call(f, [container, x], {}))
        if isinstance(container, VList):
            from . import loops
            return loops.list_contains(self, container, x)
        if isinstance(container, dict):
            return x in container
        r = npmodel.contains_hook(self, container, x)
        if r is not npmodel.NOATTR:
            return r
        raise OutOfReach(f"'in' on {type(container).__name__}")

    def e_Call(self, e, env):
        fn = self.eval(e.func, env)
        args, kwargs = [], {}
        for a in e.args:
            if isinstance(a, ast.Starred):
                v = self.eval(a.value, env)
                if not isinstance(v, tuple):
                    raise OutOfReach("*args of a non-tuple")
                args.extend(v)
            else:
                args.append(self.eval(a, env))
        for k in e.keywords:
            if k.arg is None:
                v = self.eval(k.value, env)
                if not isinstance(v, dict):
                    raise OutOfReach("**kwargs of a non-dict")
                kwargs.update(v)
            else:
                kwargs[k.arg] = self.eval(k.value, env)
        # generator-consuming builtins get the AST so that SEARCH / FOLD rules can be applied
        return self.call(fn, args, kwargs)

    def e_Subscript(self, e, env):
        return self.getitem(self.eval(e.value, env), self.eval_index(e.slice, env))

    def eval_index(self, s, env):
        if isinstance(s, ast.Slice):
            return VSlice(self.eval(s.lower, env) if s.lower else None, self.eval(s.upper, env) if s.upper else None,
                          self.eval(s.step, env) if s.step else None)
        if isinstance(s, ast.Tuple):
            return tuple(self.eval_index(x, env) for x in s.elts)
        return self.eval(s, env)

    def e_Slice(self, e, env):
        return self.eval_index(e, env)

    def getitem(self, obj, idx):
        from . import npmodel, loops
        if isinstance(obj, VObj):
            f, _ = obj.cls.lookup("__getitem__")
            if f is None:
                self.raise_("TypeError", "not subscriptable")
            return self.call(f, [obj, idx], {})
        if isinstance(obj, tuple):
            if isinstance(idx, VSlice):
                return obj[slice(conc(idx.start) if idx.start is not None else None, conc(idx.stop) if idx.stop is not None else None)]
            c = conc(idx)
            if c is None:
                raise OutOfReach("symbolic tuple index")
            if not -len(obj) <= c < len(obj):
                self.raise_("IndexError", "tuple index out of range")
            return obj[c]
        if isinstance(obj, VList):
            return loops.list_getitem(self, obj, idx)
        if isinstance(obj, dict):
            if idx in obj:
                return obj[idx]
            self.raise_("KeyError", idx)
        if isinstance(obj, ClassModel) and obj.builtin:
            return obj            # typing generics: List[int] etc.
        if type(obj).__name__ == "VTyping":
            return obj
        r = npmodel.getitem_hook(self, obj, idx)
        if r is not npmodel.NOATTR:
            return r
        raise OutOfReach(f"subscript on {type(obj).__name__}")

    def setitem(self, obj, idx, v):
        from . import npmodel, loops
        if isinstance(obj, VList):
            return loops.list_setitem(self, obj, idx, v)
        if isinstance(obj, dict):
            obj[idx] = v
            return
        if npmodel.setitem_hook(self, obj, idx, v):
            return
        raise OutOfReach(f"item assignment on {type(obj).__name__}")

    def delitem(self, obj, idx):
        from . import loops
        if isinstance(obj, VList):
            return loops.list_delitem(self, obj, idx)
        raise OutOfReach(f"del item on {type(obj).__name__}")

    def e_ListComp(self, e, env):
        from . import loops
        return loops.comprehension(self, e, env, kind="list")

    def e_GeneratorExp(self, e, env):
        from . import loops
        return loops.GenExp(e, env)

    def e_DictComp(self, e, env):
        raise OutOfReach("dict comprehension")

    def e_Lambda(self, e, env):
        raise OutOfReach("lambda")

    def e_Starred(self, e, env):
        raise OutOfReach("starred expression")


def _as_load(t):
    if isinstance(t, ast.Name):
        return ast.Name(id=t.id, ctx=ast.Load())
    if isinstance(t, ast.Attribute):
        return ast.Attribute(value=t.value, attr=t.attr, ctx=ast.Load())
    if isinstance(t, ast.Subscript):
        return ast.Subscript(value=t.value, slice=t.slice, ctx=ast.Load())
    raise OutOfReach("augmented assignment target")
