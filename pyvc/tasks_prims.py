"""Primitive codec layer under contract: BTSString (C13), BTSDate, TdfType methods.  Each real body is checked for
equivalence with its contract (the same contract the callers are verified against)."""
import z3

from . import npmodel
from .codec import CONTRACTS, expect_eq
from .core import (And, I, If, Implies, Not, Or, OutOfReach, PyRaise, Seq, VDate, VFloat, VStr, VObj, conc, eq, is_int, rng, zbool, zint)
from .interp import EXC, FuncModel
from .npmodel import VBytes, VBytesIO, VDType, VInFile, VNd, to_bytes
from .stream import AField, ALit, APad, ARaw, AText, InStream, alen, slen, stream_eq_goals
from .verify import Task
from .symlayout import in_range as _in_range
from .core import VList


def _outcome(interp, call):
    try:
        return ("return", call())
    except PyRaise as pr:
        return ("raise", pr.exc)


def compare_outcomes(interp, tag, ob, oc, allowed_exc=None):
    """obligations: the body's outcome ``ob`` equals the contract's outcome ``oc``"""
    ctx = interp.ctx
    if ob[0] != oc[0]:
        what = f"body {'raises ' + ob[1].cls.name if ob[0] == 'raise' else 'returns'} where the contract {'raises ' + oc[1].cls.name if oc[0] == 'raise' else 'returns'}"
        ctx.oblige(f"{tag}.outcome({what})", False, kind="outcome")
        return
    if ob[0] == "raise":
        want = oc[1].cls
        ok = ob[1].cls.is_subclass(want) or (allowed_exc and any(ob[1].cls.is_subclass(EXC[a]) for a in allowed_exc))
        ctx.oblige(f"{tag}.exception_class({ob[1].cls.name} for {want.name})", bool(ok), kind="outcome")
        return
    a, b = ob[1], oc[1]
    if isinstance(b, (VBytes, bytes)):
        if not isinstance(a, (VBytes, bytes)):
            ctx.oblige(f"{tag}.returns_bytes", False, kind="value")
            return
        try:
            goals = stream_eq_goals(ctx, to_bytes(a).atoms, to_bytes(b).atoms, tag)
        except Exception:
            sa, sb = npmodel.raw_seq(interp, to_bytes(a).atoms), npmodel.raw_seq(interp, to_bytes(b).atoms)
            k = ctx.fresh_const("byte")
            goals = [(tag + ".len", eq(sa.n, sb.n)), (tag + ".bytes", Implies(rng(0, k, sb.n), eq(sa.get(k), sb.get(k))))]
        for n, g in goals:
            ctx.oblige(n, g, kind="value")
    else:
        for n, g in expect_eq(interp, a, b, tag):
            ctx.oblige(n, g, kind="value")


def sym_text(ctx, name, valid=False, width=None):
    n = z3.Const(name + ".len", I)
    ch = z3.Function(name + ".chr", I, I)
    ctx.assume(n >= 0)
    j = z3.Const(name + ".j", I)
    ctx.assume(z3.ForAll([j], z3.Implies(z3.And(0 <= j, j < n), z3.And(ch(j) >= 0, ch(j) < 0x110000))))
    if valid:
        npmodel.cp_axioms(ctx)
        ctx.assume(z3.ForAll([j], z3.Implies(z3.And(0 <= j, j < n), z3.And(npmodel.cp_enc_ok(ch(j)), ch(j) != 0))))
        if width is not None:
            ctx.assume(n < width)
    return VStr(Seq(n, lambda i: ch(i)))


def _bts(interp, attr):
    mod = interp.loader.import_module(interp, "basictdf.tdfTypes")
    f = mod.ns["BTSString"].attrs[attr]
    return f.fn if hasattr(f, "fn") else f


def bts_tasks():
    out = []

    def write_any(interp):
        """all strings x all widths: exact width, NUL terminator, zero fill -- or ValueError; never truncated"""
        ctx = interp.ctx
        npmodel.cp_axioms(ctx)
        size = z3.Const("size", I)
        ctx.assume(size >= 1)
        s = sym_text(ctx, "s")
        f = _bts(interp, "write")
        interp.inline_only.add(f.qualname)
        ob = _outcome(interp, lambda: interp.call(f, [size, s], {}))
        oc = _outcome(interp, lambda: CONTRACTS[f.qualname](interp, f, [size, s], {}))
        compare_outcomes(interp, "C13.write", ob, oc)
        if ob[0] == "return" and isinstance(ob[1], (VBytes, bytes)):
            ctx.oblige("C13.write.exact_width", eq(slen(ctx, to_bytes(ob[1]).atoms), size), kind="value")
    out.append(Task("C13.BTSString.write", "basictdf.tdfTypes.BTSString.write", ["C13", "C06", "C01"], write_any, kind="prim"))

    def read_roundtrip(interp):
        """read(size, write(size, s) with ANY bytes after the terminator) == s for every valid s (C13 + C12)"""
        ctx = interp.ctx
        npmodel.cp_axioms(ctx)
        size = z3.Const("size", I)
        s = sym_text(ctx, "s", valid=True)
        ctx.assume(s.seq.n < size)
        f = _bts(interp, "read")
        interp.inline_only.add(f.qualname)
        data = VBytes([AText(s.seq), APad(1), APad(size - s.seq.n - 1, dontcare=True)])
        ob = _outcome(interp, lambda: interp.call(f, [size, data], {}))
        compare_outcomes(interp, "C13.read.roundtrip", ob, ("return", s))
    out.append(Task("C13.BTSString.read.roundtrip", "basictdf.tdfTypes.BTSString.read", ["C13", "C12", "C01", "C06"], read_roundtrip, kind="prim"))

    def read_any(interp):
        """all byte strings of the field width: the text before the first NUL (whole field if none), cp1252-decoded"""
        ctx = interp.ctx
        npmodel.cp_axioms(ctx)
        size = z3.Const("size", I)
        ctx.assume(size >= 0)
        raw = z3.Function("rawbytes", I, I)
        j = z3.Const("rb.j", I)
        ctx.assume(z3.ForAll([j], z3.And(raw(j) >= 0, raw(j) < 256)))
        data = VBytes([ARaw(Seq(size, lambda i: raw(i)))])
        f = _bts(interp, "read")
        interp.inline_only.add(f.qualname)
        ob = _outcome(interp, lambda: interp.call(f, [size, data], {}))
        oc = _outcome(interp, lambda: CONTRACTS[f.qualname](interp, f, [size, data], {}))
        compare_outcomes(interp, "C13.read.any", ob, oc)
    out.append(Task("C13.BTSString.read.any_bytes", "basictdf.tdfTypes.BTSString.read", ["C13", "C12"], read_any, kind="prim"))

    def bwrite(interp):
        ctx = interp.ctx
        npmodel.cp_axioms(ctx)
        size = z3.Const("size", I)
        ctx.assume(size >= 1)
        s = sym_text(ctx, "s")
        f = _bts(interp, "bwrite")
        interp.inline_only.add(f.qualname)
        fa, fb = interp.register(VBytesIO()), interp.register(VBytesIO())
        ob = _outcome(interp, lambda: interp.call(f, [fa, size, s], {}))
        oc = _outcome(interp, lambda: CONTRACTS[f.qualname](interp, f, [fb, size, s], {}))
        ob = (ob[0], VBytes(fa.atoms)) if ob[0] == "return" else ob
        oc = (oc[0], VBytes(fb.atoms)) if oc[0] == "return" else oc
        compare_outcomes(interp, "C13.bwrite", ob, oc)
    out.append(Task("C13.BTSString.bwrite", "basictdf.tdfTypes.BTSString.bwrite", ["C13", "C06", "C01"], bwrite, kind="prim"))

    def bread(interp):
        ctx = interp.ctx
        npmodel.cp_axioms(ctx)
        size = z3.Const("size", I)
        s = sym_text(ctx, "s", valid=True)
        ctx.assume(s.seq.n < size)
        f = _bts(interp, "bread")
        interp.inline_only.add(f.qualname)
        atoms = [AText(s.seq), APad(1), APad(size - s.seq.n - 1, dontcare=True), ALit(b"\xA5\xA5")]
        stream = interp.register(VInFile(InStream(atoms)))
        ob = _outcome(interp, lambda: interp.call(f, [stream, size], {}))
        compare_outcomes(interp, "C13.bread", ob, ("return", s))
        if ob[0] == "return":
            ctx.oblige("C13.bread.consumed_exactly_the_field", eq(slen(ctx, stream.s.consumed), size), kind="value")
    out.append(Task("C13.BTSString.bread", "basictdf.tdfTypes.BTSString.bread", ["C13", "C12", "C01", "C06", "C02"], bread, kind="prim"))
    return out


def date_tasks():
    out = []

    def _d(interp, attr):
        mod = interp.loader.import_module(interp, "basictdf.tdfTypes")
        f = mod.ns["BTSDate"].attrs[attr]
        return f.fn if hasattr(f, "fn") else f

    def write(interp):
        ctx = interp.ctx
        secs = z3.Const("secs", I)
        d = VDate(secs, z3.Const("frac", I))
        ctx.assume(secs >= 0)
        f = _d(interp, "write")
        interp.inline_only.add(f.qualname)
        ob = _outcome(interp, lambda: interp.call(f, [d], {}))
        oc = _outcome(interp, lambda: CONTRACTS[f.qualname](interp, f, [d], {}))
        compare_outcomes(interp, "DATE.write", ob, oc)
    out.append(Task("DATE.write", "basictdf.tdfTypes.BTSDate.write", ["C06", "C04", "C10"], write, kind="prim"))

    def read(interp):
        ctx = interp.ctx
        secs = z3.Const("secs", I)
        ctx.assume(And(secs >= -2**31, secs < 2**31))
        data = VBytes([AField("i4", 1, Seq.of([secs]))])
        f = _d(interp, "read")
        interp.inline_only.add(f.qualname)
        ob = _outcome(interp, lambda: interp.call(f, [data], {}))
        compare_outcomes(interp, "DATE.read", ob, ("return", VDate(secs, 0)))
        if ob[0] == "return" and isinstance(ob[1], VDate):
            ctx.oblige("DATE.read.seconds", eq(ob[1].secs, secs), kind="value")
    out.append(Task("DATE.read", "basictdf.tdfTypes.BTSDate.read", ["C06", "C04", "C10"], read, kind="prim"))
    for attr, mk in (("bwrite", "w"), ("bread", "r")):
        def run(interp, attr=attr, mk=mk):
            ctx = interp.ctx
            secs = z3.Const("secs", I)
            ctx.assume(And(secs >= 0, secs < 2**31))
            f = _d(interp, attr)
            interp.inline_only.add(f.qualname)
            if mk == "w":
                fa, fb = interp.register(VBytesIO()), interp.register(VBytesIO())
                d = VDate(secs, z3.Const("frac", I))
                ob = _outcome(interp, lambda: interp.call(f, [fa, d], {}))
                oc = _outcome(interp, lambda: CONTRACTS[f.qualname](interp, f, [fb, d], {}))
                ob = (ob[0], VBytes(fa.atoms)) if ob[0] == "return" else ob
                oc = (oc[0], VBytes(fb.atoms)) if oc[0] == "return" else oc
                compare_outcomes(interp, "DATE.bwrite", ob, oc)
            else:
                stream = interp.register(VInFile(InStream([AField("i4", 1, Seq.of([secs])), ALit(b"\xA5")])))
                ob = _outcome(interp, lambda: interp.call(f, [stream], {}))
                if ob[0] == "return" and isinstance(ob[1], VDate):
                    ctx.oblige("DATE.bread.seconds", eq(ob[1].secs, secs), kind="value")
                    ctx.oblige("DATE.bread.consumed_4", eq(slen(ctx, stream.s.consumed), 4), kind="value")
                else:
                    ctx.oblige("DATE.bread.returns_a_date", False, kind="outcome")
        out.append(Task("DATE." + attr, "basictdf.tdfTypes.BTSDate." + attr, ["C06", "C04", "C10"], run, kind="prim"))
    return out


# ------------------------------------------------------------------------------------------------ TdfType
def tdftype_instances(interp):
    """all module-level TdfType instances of the repository: {(module, name): VObj}"""
    out = {}
    for m in ["tdfTypes", "tdfData3D", "tdfEMG", "tdfForce3D", "tdfForcePlatformsData", "tdfForcePlatformsCalibration", "tdfCalibrationData"]:
        mod = interp.loader.import_module(interp, "basictdf." + m)
        for k, v in mod.ns.items():
            if isinstance(v, VObj) and v.cls.name == "TdfType":
                out.setdefault(id(v), (f"{m}.{k}", v))
    return list(out.values())


TDF_NAMES = ["tdfTypes.i32", "tdfTypes.u32", "tdfTypes.i16", "tdfTypes.u16", "tdfTypes.f32", "tdfTypes.f64", "tdfTypes.VEC3F", "tdfTypes.VEC2I",
             "tdfTypes.MAT3X3F", "tdfTypes.VEC2D", "tdfTypes.MAT3X3D", "tdfTypes.VEC3D", "tdfTypes.VEC2F", "tdfTypes.SegmentData",
             "tdfData3D.LinkType", "tdfData3D.TrackType", "tdfForcePlatformsData.PlatDataType", "tdfForcePlatformsCalibration.ForcePlatformVertices"]


def _sym_items(ctx, bt, n, name):
    """layout bytes of n items of dtype bt, and the expected array"""
    if bt.fields is not None:
        funs = {nm: z3.Function(f"{name}.{nm}", I, I, I) for nm, _ in bt.fields}

        def body(j):
            return [AField(f.kind, f.nitems, Seq(f.nitems, lambda i, nm=nm, j=j: funs[nm](zint(j), zint(i)))) for nm, f in bt.fields]
        from .stream import AFold
        atoms = [AFold(0, n, body)]
        fields = {}
        for nm, f in bt.fields:
            if f.subshape:
                fields[nm] = VNd((n,) + f.subshape, VDType(f.kind), lambda j, i, nm=nm: funs[nm](zint(j), zint(i)))
            else:
                fields[nm] = VNd((n,), VDType(f.kind), lambda j, nm=nm: funs[nm](zint(j), 0))
        return atoms, VNd((n,), bt, None, fields)
    fn = z3.Function(name, I, I)
    per = bt.nitems
    atoms = [AField(bt.kind, n * per, Seq(n * per, lambda i: fn(zint(i))))]
    shape = (n,) + bt.subshape
    return atoms, VNd(shape, VDType(bt.kind), npmodel._unflatten(Seq(n * per, lambda i: fn(zint(i))), shape))


def tdftype_tasks():
    out = []
    for nm in TDF_NAMES:
        modn, attr = nm.split(".")

        def get(interp, modn=modn, attr=attr):
            return interp.loader.import_module(interp, "basictdf." + modn).ns[attr]

        def meth(interp, self_, name):
            f, _ = self_.cls.lookup(name)
            return f

        def t_bread_n(interp, get=get, nm=nm):
            ctx = interp.ctx
            self_ = get(interp)
            bt = self_.fields["btype"]
            n = z3.Const("n", I)
            ctx.assume(n >= 0)
            atoms, exp = _sym_items(ctx, bt, n, "items")
            stream = interp.register(VInFile(InStream(atoms + [ALit(b"\xA5\xA5\xA5")])))
            f = meth(interp, self_, "bread")
            interp.inline_only.add(f.qualname)
            ob = _outcome(interp, lambda: interp.call(f, [self_, stream, n], {}))
            compare_outcomes(interp, f"TDF.{nm}.bread(n)", ob, ("return", exp))
            if ob[0] == "return":
                ctx.oblige(f"TDF.{nm}.bread(n).consumed", eq(slen(ctx, stream.s.consumed), n * bt.itemsize), kind="value")
        out.append(Task(f"TDF.{nm}.bread(n)", "basictdf.tdfTypes.TdfType.bread", ["C01", "C06", "C02"], t_bread_n, kind="prim"))

        def t_bread_1(interp, get=get, nm=nm):
            ctx = interp.ctx
            self_ = get(interp)
            bt = self_.fields["btype"]
            atoms, exp = _sym_items(ctx, bt, 1, "items")
            stream = interp.register(VInFile(InStream(atoms + [ALit(b"\xA5\xA5\xA5")])))
            f = meth(interp, self_, "bread")
            interp.inline_only.add(f.qualname)
            ob = _outcome(interp, lambda: interp.call(f, [self_, stream], {}))
            want = npmodel.nd_index(interp, exp, 0)
            compare_outcomes(interp, f"TDF.{nm}.bread()", ob, ("return", want))
            if ob[0] == "return":
                ctx.oblige(f"TDF.{nm}.bread().consumed", eq(slen(ctx, stream.s.consumed), bt.itemsize), kind="value")
        out.append(Task(f"TDF.{nm}.bread()", "basictdf.tdfTypes.TdfType.bread", ["C01", "C06", "C02"], t_bread_1, kind="prim"))

        def t_bwrite(interp, get=get, nm=nm):
            ctx = interp.ctx
            self_ = get(interp)
            bt = self_.fields["btype"]
            n = z3.Const("n", I)
            ctx.assume(n >= 0)
            atoms, arr = _sym_items(ctx, bt, n, "items")
            f = meth(interp, self_, "bwrite")
            interp.inline_only.add(f.qualname)
            fa = interp.register(VBytesIO())
            ob = _outcome(interp, lambda: interp.call(f, [self_, fa, arr], {}))
            ob = (ob[0], VBytes(fa.atoms)) if ob[0] == "return" else ob
            compare_outcomes(interp, f"TDF.{nm}.bwrite(array)", ob, ("return", VBytes(atoms)))
        out.append(Task(f"TDF.{nm}.bwrite(array)", "basictdf.tdfTypes.TdfType.bwrite", ["C01", "C06", "C02"], t_bwrite, kind="prim"))

        # read / write themselves: bread / bwrite (above) call them through their contracts, so their bodies are proved here
        def t_read(interp, get=get, nm=nm):
            ctx = interp.ctx
            self_ = get(interp)
            bt = self_.fields["btype"]
            n = z3.Const("n", I)
            ctx.assume(n >= 0)
            atoms, exp = _sym_items(ctx, bt, n, "items")
            f = meth(interp, self_, "read")
            interp.inline_only.add(f.qualname)
            ob = _outcome(interp, lambda: interp.call(f, [self_, VBytes(atoms)], {}))
            compare_outcomes(interp, f"TDF.{nm}.read(bytes)", ob, ("return", exp))
        out.append(Task(f"TDF.{nm}.read(bytes)", "basictdf.tdfTypes.TdfType.read", ["C01", "C06", "C02", "C12"], t_read, kind="prim"))

        def t_write(interp, get=get, nm=nm):
            ctx = interp.ctx
            self_ = get(interp)
            bt = self_.fields["btype"]
            n = z3.Const("n", I)
            ctx.assume(n >= 0)
            atoms, arr = _sym_items(ctx, bt, n, "items")
            f = meth(interp, self_, "write")
            interp.inline_only.add(f.qualname)
            ob = _outcome(interp, lambda: interp.call(f, [self_, arr], {}))
            compare_outcomes(interp, f"TDF.{nm}.write(array)", ob, ("return", VBytes(atoms)))
        out.append(Task(f"TDF.{nm}.write(array)", "basictdf.tdfTypes.TdfType.write", ["C01", "C06", "C02"], t_write, kind="prim"))
    def t_write_pairs(interp):
        """LinkType.write of a Python list of (track, track) tuples -- what a caller may assign to Data3D.links instead of a
        record array: one 8-byte record per pair"""
        ctx = interp.ctx
        self_ = interp.loader.import_module(interp, "basictdf.tdfData3D").ns["LinkType"]
        bt = self_.fields["btype"]
        n = z3.Const("n", I)
        ctx.assume(n >= 0)
        a, b = z3.Function("pair_first", I, I), z3.Function("pair_second", I, I)
        k0 = z3.Const("k!pairs", I)
        ctx.assume(z3.ForAll([k0], z3.And(_in_range("u4", a(k0)), _in_range("u4", b(k0)))))
        lst = VList(None, n, lambda k: (a(zint(k)), b(zint(k))), label="pairs")
        f, _ = self_.cls.lookup("write")
        interp.inline_only.add(f.qualname)
        ob = _outcome(interp, lambda: interp.call(f, [self_, lst], {}))
        from .stream import AFold
        want = [AFold(0, n, lambda j: [AField("u4", 1, Seq.of([a(zint(j))])), AField("u4", 1, Seq.of([b(zint(j))]))])]
        compare_outcomes(interp, "TDF.tdfData3D.LinkType.write(list of pairs)", ob, ("return", VBytes(want)))
    out.append(Task("TDF.tdfData3D.LinkType.write(list of pairs)", "basictdf.tdfTypes.TdfType.write", ["C01", "C06", "C02"], t_write_pairs, kind="prim"))
    # scalar writes, skip / pad / bpad / nBytes on the scalar types
    for nm in ["tdfTypes.i32", "tdfTypes.u32", "tdfTypes.i16", "tdfTypes.u16", "tdfTypes.f32", "tdfTypes.f64"]:
        modn, attr = nm.split(".")

        def get(interp, modn=modn, attr=attr):
            return interp.loader.import_module(interp, "basictdf." + modn).ns[attr]

        def t_scalar(interp, get=get, nm=nm):
            ctx = interp.ctx
            self_ = get(interp)
            bt = self_.fields["btype"]
            x = VFloat(z3.Const("x", I), bt.kind) if bt.kind in ("f4", "f8") else z3.Const("x", I)
            f, _ = self_.cls.lookup("bwrite")
            interp.inline_only.add(f.qualname)
            fa = interp.register(VBytesIO())
            ob = _outcome(interp, lambda: interp.call(f, [self_, fa, x], {}))
            ob = (ob[0], VBytes(fa.atoms)) if ob[0] == "return" else ob
            w = x.w if isinstance(x, VFloat) else x
            compare_outcomes(interp, f"TDF.{nm}.bwrite(scalar)", ob, ("return", VBytes([AField(bt.kind, 1, Seq.of([w]))])))
        out.append(Task(f"TDF.{nm}.bwrite(scalar)", "basictdf.tdfTypes.TdfType.bwrite", ["C01", "C06"], t_scalar, kind="prim"))

        def t_write_other(interp, get=get, nm=nm):
            """write of a Python scalar and of a Python list of scalars (what the blocks pass for counts and channel maps)"""
            ctx = interp.ctx
            self_ = get(interp)
            bt = self_.fields["btype"]
            f, _ = self_.cls.lookup("write")
            interp.inline_only.add(f.qualname)
            x = VFloat(z3.Const("x", I), bt.kind) if bt.kind in ("f4", "f8") else z3.Const("x", I)
            if not isinstance(x, VFloat):
                ctx.assume(_in_range(bt.kind, x))
            ob = _outcome(interp, lambda: interp.call(f, [self_, x], {}))
            w = x.w if isinstance(x, VFloat) else x
            compare_outcomes(interp, f"TDF.{nm}.write(scalar)", ob, ("return", VBytes([AField(bt.kind, 1, Seq.of([w]))])))
            n = z3.Const("n", I)
            ctx.assume(n >= 0)
            it = z3.Function("list_items", I, I)
            if bt.kind in ("f4", "f8"):
                lst = VList(None, n, lambda k: VFloat(it(zint(k)), bt.kind), label="values")
            else:
                k0 = z3.Const("k!list", I)
                ctx.assume(z3.ForAll([k0], _in_range(bt.kind, it(k0))))
                lst = VList(None, n, lambda k: it(zint(k)), label="values")
            ob = _outcome(interp, lambda: interp.call(f, [self_, lst], {}))
            compare_outcomes(interp, f"TDF.{nm}.write(list)", ob, ("return", VBytes([AField(bt.kind, n, Seq(n, lambda i: it(zint(i))))])))
        out.append(Task(f"TDF.{nm}.write(scalar,list)", "basictdf.tdfTypes.TdfType.write", ["C01", "C06", "C02"], t_write_other, kind="prim"))

        def t_misc(interp, get=get, nm=nm):
            ctx = interp.ctx
            self_ = get(interp)
            bt = self_.fields["btype"]
            n = z3.Const("n", I)
            ctx.assume(n >= 0)
            for name in ("pad", "nBytes"):
                f, _ = self_.cls.lookup(name)
                interp.inline_only = {f.qualname}
                ob = _outcome(interp, lambda: interp.call(f, [self_, n], {}))
                oc = _outcome(interp, lambda: CONTRACTS[f.qualname](interp, f, [self_, n], {}))
                compare_outcomes(interp, f"TDF.{nm}.{name}", ob, oc)
            f, _ = self_.cls.lookup("bpad")
            interp.inline_only = {f.qualname}
            fa = interp.register(VBytesIO())
            ob = _outcome(interp, lambda: interp.call(f, [self_, fa, n], {}))
            ob = (ob[0], VBytes(fa.atoms)) if ob[0] == "return" else ob
            compare_outcomes(interp, f"TDF.{nm}.bpad", ob, ("return", VBytes([APad(n * bt.itemsize)])))
            f, _ = self_.cls.lookup("skip")
            interp.inline_only = {f.qualname}
            stream = interp.register(VInFile(InStream([APad(n * bt.itemsize, dontcare=True), ALit(b"\xA5\xA5")])))
            ob = _outcome(interp, lambda: interp.call(f, [self_, stream, n], {}))
            if ob[0] == "return":
                ctx.oblige(f"TDF.{nm}.skip.consumed", eq(slen(ctx, stream.s.consumed), n * bt.itemsize), kind="value")
            else:
                ctx.oblige(f"TDF.{nm}.skip.returns", False, kind="outcome")
        out.append(Task(f"TDF.{nm}.pad/bpad/skip/nBytes", "basictdf.tdfTypes.TdfType.pad", ["C06", "C12", "C02"], t_misc, kind="prim"))
    return out


def all_tasks():
    return bts_tasks() + date_tasks() + tdftype_tasks()
