"""Contracts of object-level mutators used at call sites (C15 C16): add one track / one (channel, item) pair."""
from .codec import c_add_pair
from .core import OutOfReach, eq
from .npmodel import as_int


def c_add_single(item_cls, items_field, len_attrs):
    """add_track(self, track): TypeError unless a track of the right class; ValueError unless as long as the block;
    otherwise appended as the last item; nothing changes when it raises"""
    def contract(interp, fn, args, kw):
        ctx = interp.ctx
        self_, item = args[0], args[1] if len(args) > 1 else kw.get(fn.node.args.args[1].arg)
        cls = interp.loader.function(interp, item_cls)
        if not ctx.branch(interp.isinstance(item, cls), "item-kind"):
            interp.raise_("TypeError", "wrong kind of item")
        a = interp.getattr(item, len_attrs[0])
        b = interp.getattr(self_, len_attrs[1])
        if not ctx.branch(eq(as_int(interp, a), as_int(interp, b)), "item-length"):
            interp.raise_("ValueError", "wrong number of frames")
        interp.call(interp.getattr(self_.fields[items_field], "append"), [item], {})
        return None
    return contract


CONTRACTS = {
    "basictdf.tdfForcePlatformsData.ForcePlatformsDataBlock.add_platform": c_add_pair(
        "basictdf.tdfForcePlatformsData.ForcePlatformData", "_platforms", "_plat_map", type_exc="ValueError"),
    "basictdf.tdfData3D.Data3D.add_track": c_add_single("basictdf.tdfData3D.MarkerTrack", "_tracks", ("nFrames", "nFrames")),
    "basictdf.tdfForce3D.ForceTorque3D.add_track": c_add_single("basictdf.tdfForce3D.ForceTorqueTrack", "_tracks", ("nFrames", "nFrames")),
}
