"""pathlib / shutil contracts -- filled in by the container engine."""
from .core import OutOfReach, VBuiltin


def pathlib_ns(interp):
    def path(interp, a, k):
        raise OutOfReach("pathlib.Path is not modelled here")
    return {"Path": VBuiltin("Path", path)}


def shutil_ns(interp):
    return {}
