"""Path exploration and discharge of obligations."""
import hashlib
import ast
import subprocess
import tempfile
import time
import traceback

import z3

from .core import Ctx, Infeasible, OutOfReach, PyRaise, conc, zbool
from .interp import Interp
from .loader import ModuleLoader
from .stream import Unaligned

Z3_TIMEOUT_MS = 10000
CVC5_TIMEOUT_MS = 10000
PORTFOLIO = ()          # extra z3 seeds tried on 'unknown' (set by the retry pass of main.run)
FINITISE = True         # on 'unknown', look for a counter-model among small instances (sizes <= 0, 1, 2)


class Task:
    """one function under contract: ``run(interp)`` executes the real body on symbolic inputs and emits obligations"""

    def __init__(self, name, qualname, props, run, kind="", note=""):
        self.name, self.qualname, self.props, self.run, self.kind, self.note = name, qualname, props, run, kind, note


def discharge(ob, timeout_ms=Z3_TIMEOUT_MS, use_cvc5=True):
    """decide  pc |= goal.  result in: proved / refuted / unknown"""
    t0 = time.time()
    s = z3.Solver()
    s.set("timeout", timeout_ms)
    pcs = relevant(ob.pc, ob.goal)
    for f in pcs:
        s.add(f)
    s.add(z3.Not(zbool(ob.goal)))
    r = s.check()
    if r == z3.unknown and PORTFOLIO:
        # the same query under other search seeds: quantifier instantiation order makes solver time erratic, a verdict
        # must not depend on it (used in the retry pass only)
        for seed in PORTFOLIO:
            s2 = z3.Solver()
            s2.set("timeout", timeout_ms)
            s2.set("random_seed", seed)
            s2.set("smt.random_seed", seed)
            for f in pcs:
                s2.add(f)
            s2.add(z3.Not(zbool(ob.goal)))
            r = s2.check()
            if r != z3.unknown:
                s = s2
                break
    if r == z3.unknown and FINITISE:
        # refutation by small instances: bound every size-like constant (an Int constant the path condition says is >= 0)
        # by 0, 1, 2 in turn.  A model of the strengthened query is a model of the query: 'sat' here is a genuine refutation.
        sizes = _size_constants(pcs)
        for bound in (0, 1):
            if not sizes:
                break
            s3 = z3.Solver()
            s3.set("timeout", 2000)
            for f in pcs:
                s3.add(f)
            s3.add(z3.Not(zbool(ob.goal)))
            for c in sizes:
                s3.add(c <= bound)
            if s3.check() == z3.sat:
                r, s = z3.sat, s3
                ob.finitised = bound
                break
    ob.backend = "z3"
    if r == z3.unsat:
        ob.result = "proved"
    elif r == z3.sat:
        ob.result = "refuted"
        try:
            m = s.model()
            ob.model = {str(d): str(m[d]) for d in m.decls() if m[d] is not None and "!" not in str(d)[:0]}
        except Exception:
            ob.model = {}
    else:
        ob.result = "unknown"
        if use_cvc5:
            r2 = _cvc5(s, CVC5_TIMEOUT_MS)
            if r2 in ("unsat", "sat"):
                ob.backend = "cvc5"
                ob.result = "proved" if r2 == "unsat" else "refuted"
                ob.model = {}
    ob.time = time.time() - t0
    return ob


def _size_constants(pcs):
    """Int constants c for which some conjunct of the path condition is  c >= 0  /  0 <= c  /  c >= k (k >= 0)"""
    out = {}

    def visit(f, depth=0):
        if z3.is_and(f) and depth < 4:
            for ch in f.children():
                visit(ch, depth + 1)
            return
        if z3.is_app(f) and f.num_args() == 2:
            a, b = f.arg(0), f.arg(1)
            k = f.decl().kind()
            if k == z3.Z3_OP_GE and z3.is_int_value(b) and b.as_long() >= 0 and z3.is_const(a) and a.decl().kind() == z3.Z3_OP_UNINTERPRETED and a.sort() == z3.IntSort():
                out[a.decl().name()] = a
            if k == z3.Z3_OP_LE and z3.is_int_value(a) and a.as_long() >= 0 and z3.is_const(b) and b.decl().kind() == z3.Z3_OP_UNINTERPRETED and b.sort() == z3.IntSort():
                out[b.decl().name()] = b
    for f in pcs:
        if isinstance(f, z3.ExprRef):
            visit(f)
    return list(out.values())[:40]


def _symbols(f, cache={}):
    """uninterpreted constants / functions occurring in a formula"""
    out = set()
    seen = set()
    stack = [f]
    while stack:
        x = stack.pop()
        i = x.get_id()
        if i in seen:
            continue
        seen.add(i)
        if z3.is_quantifier(x):
            stack.append(x.body())
            continue
        if z3.is_app(x):
            d = x.decl()
            if d.kind() == z3.Z3_OP_UNINTERPRETED:
                out.add(d.name())
            stack.extend(x.children())
    return out


def relevant(pc, goal):
    """the part of the path condition that shares (transitively) an uninterpreted symbol with the goal.  Dropping the rest is
    sound for refutation as well as for proof: the dropped formulas are over a disjoint signature (and satisfiable: cover check)."""
    goal_syms = _symbols(zbool(goal))
    items = [(f, _symbols(f)) for f in pc]
    keep = [False] * len(items)
    frontier = set(goal_syms)
    changed = True
    while changed:
        changed = False
        for i, (f, sy) in enumerate(items):
            if not keep[i] and (sy & frontier or not sy):
                keep[i] = True
                if sy - frontier:
                    frontier |= sy
                    changed = True
    return [f for (f, _), k in zip(items, keep) if k]


def _cvc5(solver, timeout_ms):
    try:
        smt = "(set-logic ALL)\n" + solver.to_smt2()
        with tempfile.NamedTemporaryFile("w", suffix=".smt2", delete=True) as f:
            f.write(smt)
            f.flush()
            p = subprocess.run(["/usr/bin/cvc5", "--lang=smt2", f"--tlimit={timeout_ms}", f.name], capture_output=True, text=True, timeout=timeout_ms / 1000 + 5)
        out = p.stdout.strip().splitlines()
        return out[0] if out else "unknown"
    except Exception:
        return "unknown"


class PathResult:
    def __init__(self):
        self.obligs, self.undecided, self.trace, self.outcome = [], None, [], None


def explore(task, src_root, contracts, loop_hooks=None, max_paths=400, timeout_ms=Z3_TIMEOUT_MS):
    """run the task over all feasible paths; returns (list of discharged Oblig summaries, list of undecided notes, stats)"""
    work = [[]]
    results, undecided = [], []
    forks = {}
    npaths = 0
    used = set()
    t0 = time.time()
    while work:
        decisions = work.pop()
        npaths += 1
        if npaths > max_paths:
            undecided.append(dict(task=task.name, reason=f"more than {max_paths} paths"))
            break
        ctx = Ctx(decisions)
        loader = ModuleLoader(src_root, contracts, loop_hooks)
        interp = Interp(ctx, loader)
        try:
            task.run(interp)
        except Infeasible:
            work.extend(ctx.alts)
            continue
        except (OutOfReach, Unaligned) as e:
            undecided.append(dict(task=task.name, reason=f"{type(e).__name__}: {e}", trace=list(ctx.trace)))
        except PyRaise as e:
            undecided.append(dict(task=task.name, reason=f"uncaught exception in the harness: {e.exc!r}", trace=list(ctx.trace)))
        except RecursionError as e:
            undecided.append(dict(task=task.name, reason="recursion limit", trace=list(ctx.trace)))
        work.extend(ctx.alts)
        used.update(q for q in interp.call_log if q not in interp.inline_only)
        for fid, arm, outc in ctx.fork_outcomes:
            forks.setdefault(fid, {}).setdefault(arm, set()).add(outc)
        for ob in ctx.obligs:
            discharge(ob, timeout_ms)
            results.append(dict(task=task.name, name=ob.name, result=ob.result, backend=ob.backend, time=round(ob.time, 4),
                                trace=ob.meta.get("trace", []), meta={k: v for k, v in ob.meta.items() if k != "trace" and isinstance(v, (str, int, float, bool))},
                                model=ob.model if ob.result == "refuted" else None))
    for fid, arms in forks.items():
        if len(arms) == 2 and all("normal" in o for o in arms.values()):
            undecided.append(dict(task=task.name, reason="OutOfReach: a summarised loop branches on an iteration-dependent test and both arms continue (the FOLD rule does not apply)", trace=[]))
            break
    return results, undecided, dict(paths=npaths, wall=round(time.time() - t0, 3), contracts_used=sorted(used))


def source_hash(src_root, qualname):
    """sha256 of ast.dump of the function (or class attribute) under contract, plus file:line"""
    parts = qualname.split(".")
    import os
    for cut in range(len(parts) - 1, 0, -1):
        path = os.path.join(src_root, *parts[:cut]) + ".py"
        if os.path.exists(path):
            tree = ast.parse(open(path).read())
            node = tree
            for p in parts[cut:]:
                found = None
                for ch in getattr(node, "body", []):
                    if isinstance(ch, (ast.FunctionDef, ast.ClassDef)) and ch.name == p:
                        found = ch      # the last definition wins (property setter after getter): keep the first for getters
                        if isinstance(ch, ast.FunctionDef) and not any(isinstance(d, ast.Attribute) and d.attr == "setter" for d in ch.decorator_list):
                            break
                    elif isinstance(ch, ast.Assign) and any(isinstance(t, ast.Name) and t.id == p for t in ch.targets):
                        found = ch
                if found is None:
                    return None
                node = found
            return dict(file=os.path.relpath(path, os.path.dirname(src_root)), line=node.lineno,
                        sha256=hashlib.sha256(ast.dump(node).encode()).hexdigest()[:16])
    return None
