"""Verification tasks of the codec engine: W_T, S_T, B_T and the round-trip lemma for every layout (C01 C02 C05 C06 C12)."""
import z3

from spec.layouts import CLASS_OF
from . import npmodel
from .codec import CONTRACTS, decoded, expect_eq
from .core import And, Implies, Not, OutOfReach, PyRaise, VEnum, VProperty, conc, eq, zint
from .interp import FuncModel
from .npmodel import VBytesIO, VInFile
from .stream import InStream, alen, slen, stream_eq_goals, Unaligned
from .symlayout import SPECS, layout_atoms
from .verify import Task

WRITE_ATTR = {"Viewport": "bwrite"}
BUILD_ATTR = {"Viewport": "bread"}


def _setup(interp, name, variant):
    ctx = interp.ctx
    npmodel.cp_axioms(ctx)
    npmodel.float_axioms(ctx)
    from .symlayout import compute_fixed_lengths
    compute_fixed_lengths(interp)
    sp = SPECS[name]
    assume = []
    o = sp.make(interp, "v", (), assume, variant=variant) if variant is not None else sp.make(interp, "v", (), assume)
    for a in assume:
        ctx.assume(a)
    if hasattr(o, "nruns"):
        from .symlayout import runs_assume
        runs_assume(ctx, o)
    return sp, o


def _fn(interp, name, attr):
    cls = SPECS[name].klass(interp)
    f, _ = cls.lookup(attr)
    if isinstance(f, VProperty):
        f = f.fget
    if hasattr(f, "fn"):
        f = f.fn
    return f


def _extra_write_args(interp, name, o):
    if name == "PlatformData":
        mod = interp.loader.import_module(interp, "basictdf.tdfForcePlatformsData")
        return [mod.ns["ForcePlatformBlockFormat"].members["byTrackISSFormat"]]
    return []


def t_write(name, variant=None):
    tag = f"W.{name}" + (f"[{variant}]" if variant else "")
    attr = WRITE_ATTR.get(name, "_write")

    def run(interp):
        ctx = interp.ctx
        sp, o = _setup(interp, name, variant)
        f = _fn(interp, name, attr)
        if not isinstance(f, FuncModel):
            raise OutOfReach(f"{name}.{attr} is not a function")
        interp.inline_only.add(f.qualname)
        file = interp.register(VBytesIO())
        try:
            interp.call(f, [o, file] + _extra_write_args(interp, name, o), {})
        except PyRaise as pr:
            ctx.oblige(f"{tag}.no_exception_on_valid_object({pr.exc.cls.name})", False, kind="W.raise")
            return
        spec_atoms = layout_atoms(ctx, name, sp.view(o))
        for n, g in stream_eq_goals(ctx, file.atoms, spec_atoms, tag):
            ctx.oblige(n, g, kind="W")
    return Task(tag, CLASS_OF[name] + "." + attr, ["C01", "C06", "C05", "C02"], run, kind="W")


def t_nbytes(name, variant=None):
    tag = f"S.{name}" + (f"[{variant}]" if variant else "")

    def run(interp):
        ctx = interp.ctx
        sp, o = _setup(interp, name, variant)
        f = _fn(interp, name, "nBytes")
        if isinstance(f, FuncModel):
            interp.inline_only.add(f.qualname)
            try:
                got = interp.call(f, [o], {})
            except PyRaise as pr:
                ctx.oblige(f"{tag}.no_exception_on_valid_object({pr.exc.cls.name})", False, kind="S.raise")
                return
        else:
            got = f if f is not None else o.fields.get("nBytes")
        want = slen(ctx, layout_atoms(ctx, name, sp.view(o)))
        ctx.oblige(f"{tag}.nBytes_equals_layout_length", eq(npmodel.as_int(interp, got), want), kind="S")
    return Task(tag, CLASS_OF[name] + ".nBytes", ["C02"], run, kind="S")


def t_build(name, variant=None):
    tag = f"B.{name}" + (f"[{variant}]" if variant else "")
    attr = BUILD_ATTR.get(name, "_build")

    def run(interp):
        ctx = interp.ctx
        sp, o = _setup(interp, name, variant)
        f = _fn(interp, name, attr)
        if not isinstance(f, FuncModel):
            raise OutOfReach(f"{name}.{attr} is not a function")
        interp.inline_only.add(f.qualname)
        atoms = layout_atoms(ctx, name, sp.view(o), reading=True)
        stream = interp.register(VInFile(InStream(atoms)))
        args = []
        for a in sp.build_args(o):
            if isinstance(a, str) and a == "FORMAT":
                mod = interp.loader.import_module(interp, "basictdf.tdfForcePlatformsData")
                a = mod.ns["ForcePlatformBlockFormat"].members["byTrackISSFormat"]
            args.append(a)
        try:
            r = interp.call(f, [stream] + args, {})
        except PyRaise as pr:
            ctx.oblige(f"{tag}.no_exception_on_layout_conformant_bytes({pr.exc.cls.name})", False, kind="B.raise")
            return
        # consumed exactly the encoding
        stream.leave(interp, 0)
        for a in stream.s.cur:
            ctx.oblige(f"{tag}.consumed_all({a!r} left unread)", eq(alen(ctx, a), 0), kind="B.consumed")
        exp = decoded(interp, name, o)
        exp.decoded = False
        for n, g in expect_eq(interp, r, exp, tag):
            ctx.oblige(n, g, kind="B")
    return Task(tag, CLASS_OF[name] + "." + attr, ["C01", "C02", "C05", "C06", "C12"], run, kind="B")


def _do_write(interp, name, o, tag):
    f = _fn(interp, name, WRITE_ATTR.get(name, "_write"))
    if not isinstance(f, FuncModel):
        raise OutOfReach(f"{name} writer is not a function")
    file = interp.register(VBytesIO())
    interp.inline_only.add(f.qualname)
    try:
        interp.call(f, [o, file] + _extra_write_args(interp, name, o), {})
    except PyRaise as pr:
        interp.ctx.oblige(f"{tag}.write_raises_on_valid_object({pr.exc.cls.name})", False, kind="RT.raise")
        return None
    finally:
        interp.inline_only.discard(f.qualname)
    return file.atoms


def t_roundtrip(name, variant=None):
    """C01 (layout-free): decoding what the real writer produced yields the original content and consumes all of it"""
    tag = f"RT.{name}" + (f"[{variant}]" if variant else "")

    def run(interp):
        ctx = interp.ctx
        sp, o = _setup(interp, name, variant)
        atoms = _do_write(interp, name, o, tag)
        if atoms is None:
            return
        f = _fn(interp, name, BUILD_ATTR.get(name, "_build"))
        interp.inline_only.add(f.qualname)
        stream = interp.register(VInFile(InStream(list(atoms))))
        args = []
        for a in sp.build_args(o):
            if isinstance(a, str) and a == "FORMAT":
                mod = interp.loader.import_module(interp, "basictdf.tdfForcePlatformsData")
                a = mod.ns["ForcePlatformBlockFormat"].members["byTrackISSFormat"]
            args.append(a)
        try:
            r = interp.call(f, [stream] + args, {})
        except PyRaise as pr:
            ctx.oblige(f"{tag}.decode_of_own_encoding_raises({pr.exc.cls.name})", False, kind="RT.raise")
            return
        stream.leave(interp, 0)
        for a in stream.s.cur:
            ctx.oblige(f"{tag}.consumed_all_bytes_written({a!r} left unread)", eq(alen(ctx, a), 0), kind="RT.consumed")
        exp = decoded(interp, name, o)
        exp.decoded = False
        for n, g in expect_eq(interp, r, exp, tag):
            ctx.oblige(n, g, kind="RT")
    return Task(tag, CLASS_OF[name] + "._write+_build", ["C01", "C02", "C05"], run, kind="RT")


def t_size_vs_written(name, variant=None):
    """C02 (layout-free): nBytes equals the number of bytes the real writer emits"""
    tag = f"SW.{name}" + (f"[{variant}]" if variant else "")

    def run(interp):
        ctx = interp.ctx
        sp, o = _setup(interp, name, variant)
        atoms = _do_write(interp, name, o, tag)
        if atoms is None:
            return
        f = _fn(interp, name, "nBytes")
        if isinstance(f, FuncModel):
            interp.inline_only.add(f.qualname)
            try:
                got = interp.call(f, [o], {})
            except PyRaise as pr:
                ctx.oblige(f"{tag}.nBytes_raises({pr.exc.cls.name})", False, kind="SW.raise")
                return
        else:
            got = f if f is not None else o.fields.get("nBytes")
        ctx.oblige(f"{tag}.nBytes_equals_bytes_written", eq(npmodel.as_int(interp, got), slen(ctx, atoms)), kind="SW")
    return Task(tag, CLASS_OF[name] + ".nBytes+_write", ["C02"], run, kind="SW")


def t_roundtrip_lemma(name, variant=None):
    """R3: the canonical encoding of the decoded value equals the original encoding (enc is a function of abs)"""
    tag = f"R3.{name}" + (f"[{variant}]" if variant else "")

    def run(interp):
        ctx = interp.ctx
        sp, o = _setup(interp, name, variant)
        d = decoded(interp, name, o)
        for n, g in stream_eq_goals(ctx, layout_atoms(ctx, name, sp.view(d)), layout_atoms(ctx, name, sp.view(o)), tag):
            ctx.oblige(n, g, kind="R3")
    return Task(tag, "spec:" + name, ["C01", "C12"], run, kind="lemma")


def segments_task(name):
    """C05 write side: T._segments returns the maximal runs of present frames (composition of the numpy contracts)"""
    tag = f"SEG.{name}"

    def run(interp):
        ctx = interp.ctx
        sp, o = _setup(interp, name, None)
        f = _fn(interp, name, "_segments")
        interp.inline_only.add(f.qualname)
        try:
            r = interp.call(f, [o], {})
        except PyRaise as pr:
            ctx.oblige(f"{tag}.no_exception({pr.exc.cls.name})", False, kind="SEG.raise")
            return
        if not isinstance(r, npmodel.VRunsList):
            raise OutOfReach("_segments did not return a run list")
        N, present = o.N, o.present
        i, j, fr = ctx.fresh_const("ri"), ctx.fresh_const("rj"), ctx.fresh_const("rf")
        st = lambda k: r.at(k).start
        sp_ = lambda k: r.at(k).stop
        ctx.oblige(f"{tag}.runs_nonempty_in_range", Implies(And(0 <= i, i < r.n), And(sp_(i) - st(i) >= 1, st(i) >= 0, sp_(i) <= N)), kind="SEG")
        ctx.oblige(f"{tag}.runs_increasing_not_touching", Implies(And(0 <= i, i < j, j < r.n), sp_(i) < st(j)), kind="SEG")
        ctx.oblige(f"{tag}.runs_only_present_frames", Implies(And(0 <= i, i < r.n, st(i) <= fr, fr < sp_(i)), present(fr)), kind="SEG")
        own = z3.Const(f"own!{ctx.uid()}", z3.IntSort())
        ctx.oblige(f"{tag}.every_present_frame_in_a_run",
                   Implies(And(0 <= fr, fr < N, present(fr)), z3.Exists([own], z3.And(0 <= own, own < r.n, st(own) <= fr, fr < sp_(own)))), kind="SEG")
    return Task(tag, CLASS_OF[name] + "._segments", ["C05"], run, kind="SEG")


def canaries():
    """deliberately false contracts that must be REFUTED on every run (vacuity / soundness guard, DESIGN.md 5.1)"""
    def c1(interp):
        ctx = interp.ctx
        sp, o = _setup(interp, "MarkerTrack", None)
        f = _fn(interp, "MarkerTrack", "nBytes")
        interp.inline_only.add(f.qualname)
        got = interp.call(f, [o], {})
        ctx.oblige("CANARY.nBytes_equals_layout_length_plus_one", eq(got, slen(ctx, layout_atoms(ctx, "MarkerTrack", sp.view(o))) + 1), kind="canary")

    def c2(interp):
        ctx = interp.ctx
        sp, o = _setup(interp, "Event", None)
        file = interp.register(VBytesIO())
        f = _fn(interp, "Event", "_write")
        interp.inline_only.add(f.qualname)
        interp.call(f, [o, file], {})
        spec_atoms = layout_atoms(ctx, "Event", sp.view(o))
        spec_atoms[3], spec_atoms[4] = spec_atoms[4], spec_atoms[3]        # type and item count swapped
        for n, g in stream_eq_goals(ctx, file.atoms, spec_atoms, "CANARY.W.Event(fields swapped)"):
            ctx.oblige(n, g, kind="canary")
    return [Task("CANARY.size_plus_one", "basictdf.tdfData3D.MarkerTrack.nBytes", [], c1, kind="canary"),
            Task("CANARY.fields_swapped", "basictdf.tdfEvents.Event._write", [], c2, kind="canary")]


ITEMS = ["MarkerTrack", "EMGTrack", "ForceTorqueTrack", "PlatformData", "PlatformInfo", "Viewport", "SeelabCamera", "BTSCamera",
         "OpticalChannel", "Event", "Entry", "Data2DPCK"]
BLOCKS = ["Data3D", "EMG", "ForceTorque3D", "PlatformsData", "PlatformsCalibration", "Calibration", "OpticalSetup", "Events", "Data2D"]


def all_tasks():
    out = []
    for name in ITEMS + BLOCKS:
        for v in SPECS[name].variants:
            out.append(t_write(name, v))
            out.append(t_nbytes(name, v))
            if not (name == "Data3D" and v == "byTrack-nolinks-attr"):
                out.append(t_build(name, v))
                out.append(t_roundtrip_lemma(name, v))
                out.append(t_roundtrip(name, v))
            out.append(t_size_vs_written(name, v))
    for name in ("MarkerTrack", "EMGTrack", "ForceTorqueTrack", "PlatformData"):
        out.append(segments_task(name))
    out += canaries()
    return out
