"""pyvc core: execution context (path condition, branching by re-execution, obligations) and value classes.

Integers are Python ints or z3 ArithRef (mathematical); booleans are Python bools or z3 BoolRef.
Sequences (str code points, raw bytes, word arrays) are ``Seq`` = (length term, index -> term closure).
"""
import itertools

import z3

I = z3.IntSort()
B = z3.BoolSort()


class OutOfReach(Exception):
    """construct or library use outside the modelled subset: the function is out of the verifier's reach"""


class PyRaise(Exception):
    """a Python exception propagating through the interpreted code"""

    def __init__(self, exc):
        super().__init__(str(exc))
        self.exc = exc


class Infeasible(Exception):
    """the current path has become infeasible"""


class Oblig:
    def __init__(self, name, pc, goal, meta):
        self.name, self.pc, self.goal, self.meta = name, pc, goal, meta
        self.result = None
        self.model = None
        self.backend = None
        self.time = 0.0


def is_int(x):
    return (isinstance(x, int) and not isinstance(x, bool)) or (isinstance(x, z3.ArithRef) and x.is_int())


def is_bool(x):
    return isinstance(x, bool) or isinstance(x, z3.BoolRef)


def zint(x):
    return z3.IntVal(x) if isinstance(x, int) else x


def zbool(x):
    return z3.BoolVal(x) if isinstance(x, bool) else x


def conc(x):
    """concrete Python value of a term if it simplifies to a literal, else None"""
    if isinstance(x, (int, bool)):
        return x
    if isinstance(x, z3.ExprRef):
        s = z3.simplify(x)
        if z3.is_int_value(s):
            return s.as_long()
        if z3.is_true(s):
            return True
        if z3.is_false(s):
            return False
    return None


def And(*xs):
    xs = [x for x in xs if x is not True]
    if any(x is False for x in xs):
        return False
    if not xs:
        return True
    return z3.And(*[zbool(x) for x in xs]) if len(xs) > 1 else xs[0]


def Or(*xs):
    xs = [x for x in xs if x is not False]
    if any(x is True for x in xs):
        return True
    if not xs:
        return False
    return z3.Or(*[zbool(x) for x in xs]) if len(xs) > 1 else xs[0]


def Not(x):
    if isinstance(x, bool):
        return not x
    return z3.Not(x)


def Implies(a, b):
    if a is True:
        return b
    if a is False or b is True:
        return True
    return z3.Implies(zbool(a), zbool(b))


def If(c, a, b):
    if c is True:
        return a
    if c is False:
        return b
    return z3.If(c, zint(a) if is_int(a) else zbool(a) if is_bool(a) else a, zint(b) if is_int(b) else zbool(b) if is_bool(b) else b)


def eq(a, b):
    if isinstance(a, (int, bool)) and isinstance(b, (int, bool)):
        return a == b
    return zint(a) == zint(b) if is_int(a) else zbool(a) == zbool(b)


def rng(lo, k, hi):
    """lo <= k < hi"""
    return And(zint(lo) <= k, k < zint(hi)) if not (isinstance(lo, int) and isinstance(hi, int) and isinstance(k, int)) else (lo <= k < hi)


def _mentions_const(t, k):
    seen, stack = set(), [t]
    while stack:
        x = stack.pop()
        i = x.get_id()
        if i in seen:
            continue
        seen.add(i)
        if x.eq(k):
            return True
        if z3.is_quantifier(x):
            stack.append(x.body())
        else:
            stack.extend(x.children())
    return False


class Seq:
    """finite sequence of integer-coded items: length ``n`` and ``get(i)``"""

    def __init__(self, n, get, tag=None):
        self.n, self.get, self.tag = n, get, tag

    @staticmethod
    def of(items):
        items = list(items)

        def get(i):
            c = conc(i)
            if c is not None:
                return items[c] if 0 <= c < len(items) else 0
            e = zint(items[-1]) if items else z3.IntVal(0)
            for k in range(len(items) - 2, -1, -1):
                e = z3.If(i == k, zint(items[k]), e)
            return e
        return Seq(len(items), get)

    def slice(self, lo, hi):
        return Seq(hi - lo, lambda i: self.get(i + lo))

    def concat(self, other):
        n1 = self.n
        return Seq(n1 + other.n, lambda i: If(zint(i) < zint(n1), self.get(i), other.get(i - n1)))


class Seq2(Seq):
    """row-major flattening of a rows x cols table given by get2(i, j): the index arithmetic i // cols, i % cols (non-linear
    for a symbolic cols) is only the fallback; consumers that know about tables use get2"""

    def __init__(self, rows, cols, get2, tag=None):
        self.rows, self.cols, self.get2 = rows, cols, get2
        Seq.__init__(self, rows * cols, lambda i: get2(zint(i) / zint(cols), zint(i) % zint(cols)), tag)


def seq_eq_goals(ctx, a, b, what):
    """[(name, formula)] equivalent to a == b : same length and pointwise equal at a fresh index"""
    k = ctx.fresh_const("i_" + what)
    return [(what + ".len", eq(a.n, b.n)), (what + ".items", Implies(rng(0, k, a.n), eq(a.get(k), b.get(k))))]


class Ctx:
    """one symbolic execution path.  Forking is by re-execution: ``decisions`` is the prefix of branch choices to replay;
    alternatives discovered beyond the prefix are pushed to ``alts``."""

    def __init__(self, decisions=(), timeout_ms=700):
        self.decisions = list(decisions)
        self.dpos = 0
        self.alts = []
        self.pc = []
        self.solver = z3.Solver()
        self.solver.set("timeout", timeout_ms)
        self._n = itertools.count()
        self.obligs = []
        self.folds = []           # enclosing fold indices [(k, lo, hi)]
        self.trace = []           # human-readable path signature
        self.notes = []
        self.epoch = 0            # allocation clock (C20)
        self.infold = []          # forks taken inside summarised loops: [decision prefix, arm, fold depth]
        self.fork_outcomes = []   # (decision prefix, arm, 'normal' | 'raise')
        self.axioms_added = set()
        self.guards = []          # conditions of the predicated `if` bodies being executed (innermost last)

    # ---- naming
    def uid(self):
        return next(self._n)

    def fresh_const(self, name, sort=I):
        c = z3.Const(f"{name}!{self.uid()}", sort)
        rec = getattr(self, "recording", None)
        if rec is not None:
            rec.append(c)
        return c

    def fresh_int(self, name):
        """fresh integer; inside fold bodies a skolem function of the fold indices"""
        if not self.folds:
            return self.fresh_const(name)
        ks = [f[0] for f in self.folds]
        f = z3.Function(f"{name}!{self.uid()}", *([I] * len(ks)), I)
        return f(*ks)

    def fresh_fun(self, name, arity, sort=I):
        ks = [f[0] for f in self.folds]
        f = z3.Function(f"{name}!{self.uid()}", *([I] * (len(ks) + arity)), sort)
        return lambda *a: f(*(ks + [zint(x) for x in a]))

    # ---- path condition
    def assume(self, f, why=None):
        if f is True:
            return
        if f is False:
            raise Infeasible()
        self.pc.append(f)
        self.solver.add(f)

    def axiom_once(self, key, f):
        if key not in self.axioms_added:
            self.axioms_added.add(key)
            self.assume(f)

    def check(self, *fs):
        """sat / unsat / unknown of pc + fs"""
        fs = [f for f in fs if f is not True]
        if any(f is False for f in fs):
            return z3.unsat
        return self.solver.check(*[zbool(f) for f in fs])

    def check_sliced(self, f, timeout_ms=1500):
        from .verify import relevant
        s = z3.Solver()
        s.set("timeout", timeout_ms)
        for g in relevant(self.pc, Not(f)):
            s.add(g)
        s.add(zbool(f))
        return s.check()

    def entails(self, f):
        """True iff pc |= f is proved (unknown counts as not proved)"""
        c = conc(f) if not isinstance(f, bool) else f
        if c is True:
            return True
        if c is False:
            return self.check() == z3.unsat
        return self.check(Not(f)) == z3.unsat

    def branch(self, cond, label=""):
        """decide a boolean: concrete -> itself; symbolic -> fork (replaying recorded decisions)"""
        c = cond if isinstance(cond, bool) else conc(cond)
        if c is not None:
            return bool(c)
        if self.check(Not(cond)) == z3.unsat:
            self.assume(cond)
            return True
        if self.check(cond) == z3.unsat:
            self.assume(Not(cond))
            return False
        # second attempt on the relevant slice of the path condition (fresh solver): prunes paths the incremental check left open
        r = self.check_sliced(Not(cond)) if getattr(self, "use_sliced", False) else z3.sat
        if r == z3.unsat:
            self.assume(cond)
            return True
        if r != z3.sat and self.check_sliced(cond) == z3.unsat:
            self.assume(Not(cond))
            return False
        if self.folds and any(_mentions_const(zbool(cond), f[0]) for f in self.folds):
            # a fork on an iteration-dependent test inside a summarised loop: sound only if at most one arm completes the
            # iteration normally (the other raises).  Recorded; verify.explore rejects loops where both arms continue.
            self.infold.append([tuple(self.decisions[:self.dpos]), None, len(self.folds)])
        if self.dpos < len(self.decisions):
            choice = self.decisions[self.dpos]
        else:
            choice = True
            self.alts.append(self.decisions[:self.dpos] + [False])
            self.decisions.append(True)
        self.dpos += 1
        if self.infold and self.infold[-1][1] is None:
            self.infold[-1][1] = choice
        self.assume(cond if choice else Not(cond))
        self.trace.append(f"{label or 'branch'}={'T' if choice else 'F'}")
        return choice

    # ---- obligations
    def oblige(self, name, goal, **meta):
        if goal is True:
            goal = z3.BoolVal(True)
        if goal is False:
            goal = z3.BoolVal(False)
        self.obligs.append(Oblig(name, list(self.pc), goal, dict(meta, trace=list(self.trace))))

    def require(self, name, goal, **meta):
        """obligation + subsequently assumed (a precondition checked once)"""
        self.oblige(name, goal, **meta)
        self.assume(goal)

    # ---- folds (bodies executed once at a generic index)
    def enter_fold(self, lo, hi, name="k"):
        k = self.fresh_int(name) if False else z3.Const(f"{name}!{self.uid()}", I)
        self.folds.append((k, lo, hi))
        self.solver.push()
        mark = len(self.pc)
        self.assume(rng(lo, k, hi))
        return k, mark

    def _close_forks(self, outcome):
        depth = len(self.folds)
        keep = []
        for fk in self.infold:
            if fk[2] >= depth and fk[1] is not None:
                self.fork_outcomes.append((fk[0], fk[1], outcome))
            else:
                keep.append(fk)
        self.infold = keep

    def exit_fold_raising(self, mark):
        """the body raised at the generic iteration k: k stays a free constant ('some iteration'), local facts are kept"""
        self._close_forks("raise")
        k, lo, hi = self.folds.pop()
        local = self.pc[mark:]
        del self.pc[mark:]
        self.solver.pop()
        for f in local:
            self.assume(f)
        return k

    def exit_fold(self, mark):
        self._close_forks("normal")
        k, lo, hi = self.folds.pop()
        local = self.pc[mark:]
        del self.pc[mark:]
        self.solver.pop()
        rest = [f for f in local[1:]]
        if rest:
            self.assume(z3.ForAll([k], z3.Implies(zbool(rng(lo, k, hi)), z3.And(*rest)) if len(rest) > 1 else z3.Implies(zbool(rng(lo, k, hi)), rest[0])))
        return k


# ------------------------------------------------------------------------------------------------ values
class VObj:
    """instance of an interpreted class; ``fields`` holds attribute values"""

    def __init__(self, cls, epoch=0, label=None):
        self.cls, self.fields, self.epoch, self.label = cls, {}, epoch, label

    def __repr__(self):
        return f"<{self.cls.name} {self.label or ''}>"


class VList:
    """list: concrete ``items`` or symbolic (``n``, ``at(k)``).  Mutable; identity = Python identity."""

    def __init__(self, items=None, n=None, at=None, epoch=0, label=None):
        self.items, self.n, self.at, self.epoch, self.label = items, n, at, epoch, label

    @property
    def length(self):
        return len(self.items) if self.items is not None else self.n

    # fold protocol: appends inside a summarised loop are captured and become a symbolic suffix
    def begin_fold(self, ctx, k):
        if not hasattr(self, "_capture"):
            self._capture = []
        self._capture.append([])

    def end_fold_prepare(self, ctx, k, lo, hi):
        return self._capture.pop()

    def end_fold_commit(self, ctx, k, lo, hi, captured):
        if not captured:
            return
        if len(captured) != 1:
            raise OutOfReach("several appends to one list per loop iteration")
        from .loops import subst_value, count
        x = captured[0]
        n0 = self.length
        cnt = count(ctx, lo, hi)
        if self.items is not None and len(self.items) == 0:
            self.items = None
            self.n = cnt
            self.at = lambda j: subst_value(x, k, zint(lo) + zint(j))
            return
        if is_int(x):
            old = self.elem
            self.items_before = (n0, old)
            self.items = None
            self.n = z3.simplify(zint(n0) + zint(cnt))
            self.at = lambda j: If(zint(j) < zint(n0), old(j), subst_value(x, k, zint(lo) + zint(j) - zint(n0)))
            return
        raise OutOfReach("loop appending objects to a non-empty list")

    def elem(self, k):
        if self.items is not None:
            c = conc(k)
            if c is None:
                raise OutOfReach("symbolic index into a concrete list")
            return self.items[c]
        return self.at(k)


class VEnum:
    def __init__(self, cls, val, name=None):
        self.cls, self.val, self.name = cls, val, name

    def __repr__(self):
        return f"{self.cls.name}.{self.name or self.val}"


class VFloat:
    """opaque floating-point word (z3 Int term); kind in f4 / f8 / py"""

    def __init__(self, w, kind="py"):
        self.w, self.kind = w, kind


class VStr:
    """symbolic str: Seq of code points"""

    def __init__(self, seq):
        self.seq = seq


class VFmt:
    """f-string with symbolic parts (only structure is kept)"""

    def __init__(self, parts):
        self.parts = parts


class VOpaque:
    def __init__(self, label):
        self.label = label

    def __repr__(self):
        return f"<opaque {self.label}>"


class VSlice:
    def __init__(self, start, stop, step=None):
        self.start, self.stop, self.step = start, stop, step


class VDate:
    """datetime: whole seconds since the epoch (local) + opaque sub-second part"""

    def __init__(self, secs, frac=0):
        self.secs, self.frac = secs, frac


class VExc:
    def __init__(self, cls, args=()):
        self.cls, self.args = cls, args

    def __repr__(self):
        return f"{self.cls.name}(...)"


class VBuiltin:
    def __init__(self, name, fn):
        self.name, self.fn = name, fn

    def __repr__(self):
        return f"<builtin {self.name}>"


class VBound:
    def __init__(self, fn, self_val):
        self.fn, self.self_val = fn, self_val


class VModule:
    def __init__(self, name, ns):
        self.name, self.ns = name, ns


class VProperty:
    def __init__(self, fget=None, fset=None):
        self.fget, self.fset = fget, fset


class VStatic:
    def __init__(self, fn):
        self.fn = fn


class VClassMethod:
    def __init__(self, fn):
        self.fn = fn
