"""Loops, comprehensions, generator expressions and list operations (DESIGN.md 2.6: FOLD, SEARCH rules)."""
import ast

import z3

from .core import (And, I, If, Implies, Not, Or, OutOfReach, PyRaise, Seq, VEnum, VFloat, VList, VObj, VOpaque, VSlice, VStr,
                   VDate, conc, eq, is_bool, is_int, rng, zbool, zint)
from .stream import _mentions

UNROLL_MAX = 80


class VRange:
    def __init__(self, lo, hi):
        self.lo, self.hi = lo, hi


class VEnumerate:
    def __init__(self, inner, start=0):
        self.inner, self.start = inner, start


class VZip:
    def __init__(self, parts):
        self.parts = parts


class VIter:
    def __init__(self, inner):
        self.inner = inner


class GenExp:
    def __init__(self, node, env):
        self.node, self.env = node, env


# --------------------------------------------------------------------------------------------- substitution in values
def subst_value(v, k, t, memo=None):
    """value v with the index constant k replaced by term t (deep, structure-preserving)"""
    from . import npmodel
    memo = {} if memo is None else memo
    if isinstance(v, z3.ExprRef):
        return z3.substitute(v, (k, zint(t)))
    if v is None or isinstance(v, (int, bool, str, bytes, float)):
        return v
    if id(v) in memo:
        return memo[id(v)]
    if isinstance(v, tuple):
        return tuple(subst_value(x, k, t, memo) for x in v)
    if isinstance(v, Seq):
        return Seq(subst_value(v.n, k, t), lambda i, v=v: subst_value(v.get(i), k, t), v.tag)
    if isinstance(v, VStr):
        return VStr(subst_value(v.seq, k, t, memo))
    if isinstance(v, VFloat):
        return VFloat(subst_value(v.w, k, t), v.kind)
    if isinstance(v, VEnum):
        return VEnum(v.cls, subst_value(v.val, k, t), v.name)
    if isinstance(v, VDate):
        return VDate(subst_value(v.secs, k, t), subst_value(v.frac, k, t))
    if isinstance(v, VSlice):
        return VSlice(subst_value(v.start, k, t), subst_value(v.stop, k, t), v.step)
    if isinstance(v, VObj):
        o = VObj(v.cls, v.epoch, v.label)
        memo[id(v)] = o
        for a, val in v.__dict__.items():
            if a in ("cls", "fields", "epoch", "label"):
                continue
            setattr(o, a, _subst_attr(val, k, t, memo))
        o.fields = {f: subst_value(x, k, t, memo) for f, x in v.fields.items()}
        return o
    if isinstance(v, VList):
        if v.items is not None:
            o = VList([subst_value(x, k, t, memo) for x in v.items], epoch=v.epoch, label=v.label)
        else:
            o = VList(None, subst_value(v.n, k, t), lambda j, v=v: subst_value(v.at(j), k, t), epoch=v.epoch, label=v.label)
        if hasattr(v, "key"):
            o.key = subst_value(v.key, k, t, memo)
        memo[id(v)] = o
        return o
    if isinstance(v, dict):
        return {a: subst_value(b, k, t, memo) for a, b in v.items()}
    r = npmodel.subst_hook(v, k, t, memo)
    if r is not None:
        return r
    if isinstance(v, VOpaque):
        return v
    return v


def _subst_attr(val, k, t, memo):
    if callable(val) and not isinstance(val, (VObj, VList)):
        return lambda *a, val=val: subst_value(val(*a), k, t)
    return subst_value(val, k, t, memo)


# --------------------------------------------------------------------------------------------- iteration protocol
def iter_info(interp, v):
    """(lo, hi, elem(k), items-or-None)"""
    from . import npmodel
    if isinstance(v, VIter):
        return iter_info(interp, v.inner)
    if isinstance(v, (tuple, list)):
        items = list(v)
        return 0, len(items), (lambda k: items[conc(k)]), items
    if isinstance(v, VList):
        if v.items is not None:
            items = list(v.items)
            return 0, len(items), (lambda k: items[conc(k)]), items
        return 0, v.n, v.at, None
    if isinstance(v, VRange):
        lo, hi = v.lo, v.hi
        clo, chi = conc(lo), conc(hi)
        if clo is not None and chi is not None:
            items = list(range(clo, chi))
            return 0, len(items), (lambda k: items[conc(k)] if conc(k) is not None else clo + k), items
        return lo, hi, (lambda k: k), None
    if isinstance(v, VEnumerate):
        lo, hi, el, items = iter_info(interp, v.inner)
        st = v.start
        if items is not None:
            its = [(st + i, x) for i, x in enumerate(items)]
            return 0, len(its), (lambda k: its[conc(k)]), its
        return lo, hi, (lambda k: (zint(st) + (k - lo), el(k))), None
    if isinstance(v, VZip):
        infos = [iter_info(interp, p) for p in v.parts]
        if all(i[3] is not None for i in infos):
            its = list(zip(*[i[3] for i in infos]))
            return 0, len(its), (lambda k: its[conc(k)]), its
        n = None
        for lo, hi, el, items in infos:
            ln = (hi - lo) if not isinstance(hi, int) or not isinstance(lo, int) else hi - lo
            n = ln if n is None else If(zint(ln) < zint(n), ln, n)
        n = z3.simplify(zint(n))
        return 0, n, (lambda k: tuple(i[2](i[0] + k) for i in infos)), None
    if isinstance(v, VObj):
        f, _ = v.cls.lookup("__iter__")
        if f is not None:
            return iter_info(interp, interp.call(f, [v], {}))
    if isinstance(v, GenExp):
        raise OutOfReach("iteration over a generator expression")
    r = npmodel.iter_hook(interp, v)
    if r is not None:
        return r
    if v is None or is_int(v) or isinstance(v, VFloat):
        interp.raise_("TypeError", "object is not iterable")
    raise OutOfReach(f"iteration over {type(v).__name__}")


def count(ctx, lo, hi):
    """number of indices in [lo, hi) -- 0 when hi < lo"""
    if isinstance(lo, int) and isinstance(hi, int):
        return max(hi - lo, 0)
    if ctx.entails(zint(hi) >= zint(lo)):
        return z3.simplify(zint(hi) - zint(lo))
    return z3.simplify(If(zint(hi) > zint(lo), zint(hi) - zint(lo), 0))


def _assigned_names(stmts):
    out = set()
    for st in stmts:
        for n in ast.walk(st):
            if isinstance(n, ast.Name) and isinstance(n.ctx, ast.Store):
                out.add(n.id)
    return out


def exec_for(interp, s, env):
    if s.orelse:
        raise OutOfReach("for ... else")
    it = interp.eval(s.iter, env)
    lo, hi, elem, items = iter_info(interp, it)
    if items is not None:
        if len(items) > UNROLL_MAX:
            raise OutOfReach("long concrete loop")
        for x in items:
            interp.assign(s.target, x, env)
            interp.exec_block(s.body, env)
        return
    hook = interp.loader.loop_hook(interp, s, env, lo, hi, elem)
    if hook:
        return
    fold_loop(interp, s.target, s.body, env, lo, hi, elem)


def fold_loop(interp, target, body, env, lo, hi, elem, result_expr=None):
    """FOLD rule: execute the body once at a generic index k; summarise appends to streams / lists, scatters into
    arrays and integer accumulation.  Returns the value of result_expr at k (for comprehensions) and k."""
    ctx = interp.ctx
    tnames = _assigned_names([ast.Assign(targets=[target], value=ast.Constant(0))]) if target is not None else set()
    names = _assigned_names(body) | tnames
    acc = {}
    before = {}
    for n in names:
        if n in env.vars:
            before[n] = env.vars[n]
            if n not in tnames and is_int(env.vars[n]) and not isinstance(env.vars[n], bool):
                ph = z3.Const(f"acc_{n}!{ctx.uid()}", I)
                acc[n] = (env.vars[n], ph)
                env.vars[n] = ph
    k, mark = ctx.enter_fold(lo, hi)
    muts = list(interp.mut)
    for m in muts:
        m.begin_fold(ctx, k)
    val = None
    try:
        if target is not None:
            interp.assign(target, elem(k), env)
        try:
            interp.exec_block(body, env)
            if result_expr is not None:
                val = interp.eval(result_expr, env)
        except PyRaise as pr:
            # the loop raises at some iteration k: state written by earlier iterations is not summarised (poisoned)
            raised = pr
            for m in muts:
                try:
                    m.end_fold_prepare(ctx, k, lo, hi)
                except Exception:
                    pass
            interp.aborted_loop = True
            ctx.trace.append(f"loop-body-raises {pr.exc.cls.name}")
            raise
        deltas = {}
        for n, (old, ph) in list(acc.items()):
            new = env.vars.get(n)
            if not is_int(new) or not _mentions(zint(new), ph):
                del acc[n]          # overwritten in every iteration: a loop-local, not an accumulator
                continue
            d = z3.simplify(zint(new) - ph)
            if _mentions(d, ph):
                raise OutOfReach(f"loop-carried variable {n} is not a plain accumulator")
            deltas[n] = d
        ends = [(m, m.end_fold_prepare(ctx, k, lo, hi)) for m in muts]
    except PyRaise:
        ctx.exit_fold_raising(mark)
        raise
    except BaseException:
        ctx.exit_fold(mark)
        raise
    else:
        ctx.exit_fold(mark)
    for m, tok in ends:
        m.end_fold_commit(ctx, k, lo, hi, tok)
    for n in names:
        if n in acc:
            old, ph = acc[n]
            env.vars[n] = z3.simplify(zint(old) + ctx.sums.total(lo, hi, k, deltas[n])) if not (isinstance(deltas[n], int) or z3.is_int_value(deltas[n])) or True else old
        elif n in env.vars:
            env.vars[n] = VOpaque(f"loop-local '{n}' after the loop")
    return val, k


def comprehension(interp, e, env, kind):
    if len(e.generators) != 1:
        raise OutOfReach("nested comprehension")
    g = e.generators[0]
    it = interp.eval(g.iter, env)
    lo, hi, elem, items = iter_info(interp, it)
    from .interp import Env
    cenv = Env(env.globs, env)
    interp.ctx.epoch += 1
    if items is not None:
        out = []
        for x in items:
            interp.assign(g.target, x, cenv)
            if all(interp.truth(interp.eval(c, cenv), "comp-if") for c in g.ifs):
                out.append(interp.eval(e.elt, cenv))
        return interp.register(VList(out, epoch=interp.ctx.epoch))
    if g.ifs:
        raise OutOfReach("filtered comprehension over a symbolic sequence")
    val, k = fold_loop(interp, g.target, [], cenv, lo, hi, elem, result_expr=e.elt)
    n = count(interp.ctx, lo, hi)
    return interp.register(VList(None, n, (lambda j: subst_value(val, k, zint(lo) + j)), epoch=interp.ctx.epoch))


# --------------------------------------------------------------------------------------------- SEARCH rule
class Pure:
    """evaluate without forking: any symbolic branch inside is out of reach"""

    def __init__(self, ctx):
        self.ctx = ctx

    def __enter__(self):
        self.saved = self.ctx.branch
        ctx = self.ctx
        ctx.pure = getattr(ctx, "pure", 0) + 1

        def nofork(cond, label=""):
            c = cond if isinstance(cond, bool) else conc(cond)
            if c is not None:
                return bool(c)
            if ctx.entails(cond):
                return True
            if ctx.entails(Not(cond)):
                return False
            raise OutOfReach("branch inside a quantified (generator) expression")
        self.ctx.branch = nofork

    def __exit__(self, *a):
        self.ctx.pure -= 1
        self.ctx.branch = self.saved


def gen_terms(interp, g):
    """(lo, hi, items, at) where at(k) -> (cond term, element value) for a generator expression / comprehension node"""
    e = g.node
    if len(e.generators) != 1:
        raise OutOfReach("nested generator expression")
    comp = e.generators[0]
    it = interp.eval(comp.iter, g.env)
    lo, hi, elem, items = iter_info(interp, it)
    from .interp import Env

    def at(k):
        cenv = Env(g.env.globs, g.env)
        interp.assign(comp.target, elem(k), cenv)
        cond = True
        for c in comp.ifs:
            cond = And(cond, interp.truth_term(interp.eval(c, cenv)))
        return cond, (lambda: interp.eval(e.elt, cenv))
    return lo, hi, items, at


def search_first(interp, lo, hi, cond_at, label="search"):
    """index m of the first k in [lo,hi) with cond_at(k), or None (forks).  The same search (same bounds, same test) under
    the same path yields the same index constant: 'the first such index' is a function of the test."""
    ctx = interp.ctx
    j = z3.Const("sj!canon", I)
    with Pure(ctx):
        cj = zbool(cond_at(j))
    key = (str(zint(lo)), str(zint(hi)), cj.sexpr())
    cache = ctx.__dict__.setdefault("search_cache", {})
    if key in cache:
        kind, m = cache[key]
        if kind == "found":
            return m
        return None
    none = z3.ForAll([j], z3.Implies(zbool(rng(lo, j, hi)), z3.Not(cj)))
    # cheap witnesses: if the test provably holds at the last (or first) index the search cannot fail
    certain = False
    for w in (z3.simplify(zint(hi) - 1), zint(lo)):
        with Pure(ctx):
            cw = zbool(cond_at(w))
        if ctx.entails(And(rng(lo, w, hi), cw)):
            certain = True
            break
    if certain or ctx.branch(z3.Not(none), label + ".found"):
        m = ctx.fresh_int("first")
        with Pure(ctx):
            cm = zbool(cond_at(m))
        ctx.assume(And(rng(lo, m, hi), cm))
        ctx.assume(z3.ForAll([j], z3.Implies(zbool(And(zint(lo) <= j, j < m)), z3.Not(cj))))
        cache[key] = ("found", m)
        return m
    cache[key] = ("none", None)
    return None


def _quant_generators(interp, e, gens, env, want_all):
    """any/all(elt for .. in .. if .. for .. in .. if ..): nested quantifiers, one bound variable per level"""
    from .interp import Env
    ctx = interp.ctx
    comp = gens[0]
    it = interp.eval(comp.iter, env)
    lo, hi, elem, items = iter_info(interp, it)

    def inner(x):
        cenv = Env(env.globs, env)
        interp.assign(comp.target, x, cenv)
        cond = True
        for c in comp.ifs:
            cond = And(cond, interp.truth_term(interp.eval(c, cenv)))
        if cond is False:
            return cond, want_all
        return cond, (_quant_generators(interp, e, gens[1:], cenv, want_all) if len(gens) > 1 else interp.truth_term(interp.eval(e.elt, cenv)))
    if items is not None:
        r = want_all
        for x in items:
            c, t = inner(x)
            r = And(r, Implies(c, t)) if want_all else Or(r, And(c, t))
        return r
    j = z3.Const(f"qj!{ctx.uid()}", I)
    ctx.solver.push()
    ctx.solver.add(zbool(rng(lo, j, hi)))
    try:
        with Pure(ctx):
            c, t = inner(j)
    finally:
        ctx.solver.pop()
    if want_all:
        return z3.ForAll([j], z3.Implies(zbool(And(rng(lo, j, hi), c)), zbool(t)))
    return z3.Exists([j], zbool(And(rng(lo, j, hi), c, t)))


def b_any(interp, g, want_all=False):
    ctx = interp.ctx
    if isinstance(g, GenExp) and len(g.node.generators) > 1:
        return _quant_generators(interp, g.node, g.node.generators, g.env, want_all)
    if isinstance(g, GenExp):
        lo, hi, items, at = gen_terms(interp, g)
        if items is not None:
            r = want_all
            for idx in range(len(items)):
                c, val = at(idx)
                if not interp.ctx.branch(c, "gen-if"):
                    continue
                t = interp.truth_term(val())
                r = And(r, t) if want_all else Or(r, t)
            return r
        j = z3.Const(f"qj!{ctx.uid()}", I)
        with Pure(ctx):
            c, val = at(j)
            t = interp.truth_term(val())
        if want_all:
            return z3.ForAll([j], z3.Implies(zbool(And(rng(lo, j, hi), c)), zbool(t)))
        return z3.Exists([j], zbool(And(rng(lo, j, hi), c, t)))
    lo, hi, elem, items = iter_info(interp, g)
    if items is not None:
        r = want_all
        for x in items:
            t = interp.truth_term(x)
            r = And(r, t) if want_all else Or(r, t)
        return r
    raise OutOfReach("any/all over a symbolic non-generator")


def b_next(interp, g, default, has_default):
    if not isinstance(g, GenExp):
        raise OutOfReach("next() of a non-generator")
    lo, hi, items, at = gen_terms(interp, g)
    if items is not None:
        for idx in range(len(items)):
            c, val = at(idx)
            if interp.ctx.branch(c, "next-if"):
                return val()
        if has_default:
            return default
        interp.raise_("StopIteration")
    m = search_first(interp, lo, hi, lambda k: at(k)[0], "next")
    if m is None:
        if has_default:
            return default
        interp.raise_("StopIteration")
    return at(m)[1]()


def _sum_generators(interp, e, gens, env):
    """sum(elt for .. in .. if .. for .. in .. if ..): nested sums, each level a summand-shaped term (Sums.total)"""
    from .interp import Env
    ctx = interp.ctx
    comp = gens[0]
    it = interp.eval(comp.iter, env)
    lo, hi, elem, items = iter_info(interp, it)
    if items is not None:
        tot = 0
        for x in items:
            cenv = Env(env.globs, env)
            interp.assign(comp.target, x, cenv)
            if all(ctx.branch(interp.truth_term(interp.eval(c, cenv)), "sum-if") for c in comp.ifs):
                tot = tot + (_sum_generators(interp, e, gens[1:], cenv) if len(gens) > 1 else interp.eval(e.elt, cenv))
        return tot
    k = z3.Const(f"sumk!{ctx.uid()}", I)
    ctx.solver.push()
    ctx.solver.add(zbool(rng(lo, k, hi)))
    try:
        with Pure(ctx):
            cenv = Env(env.globs, env)
            interp.assign(comp.target, elem(k), cenv)
            cond = True
            for c in comp.ifs:
                cond = And(cond, interp.truth_term(interp.eval(c, cenv)))
            if cond is not True:
                ctx.solver.add(zbool(cond))
            v = _sum_generators(interp, e, gens[1:], cenv) if len(gens) > 1 else interp.eval(e.elt, cenv)
    finally:
        ctx.solver.pop()
    if not is_int(v):
        raise OutOfReach("sum of non-integers")
    term = If(cond, v, 0) if cond is not True else v
    return ctx.sums.total(lo, hi, k, zint(term))


def b_sum(interp, g):
    ctx = interp.ctx
    if isinstance(g, GenExp) and len(g.node.generators) > 1:
        return _sum_generators(interp, g.node, g.node.generators, g.env)
    if isinstance(g, GenExp):
        lo, hi, items, at = gen_terms(interp, g)
        if items is not None:
            tot = 0
            for idx in range(len(items)):
                c, val = at(idx)
                if ctx.branch(c, "sum-if"):
                    tot = tot + val()
            return tot
        k = z3.Const(f"sumk!{ctx.uid()}", I)
        ctx.solver.push()
        ctx.solver.add(zbool(rng(lo, k, hi)))
        try:
            with Pure(ctx):
                c, val = at(k)
                v = val()
        finally:
            ctx.solver.pop()
        if not is_int(v):
            raise OutOfReach("sum of non-integers")
        term = If(c, v, 0) if c is not True else v
        return ctx.sums.total(lo, hi, k, zint(term))
    lo, hi, elem, items = iter_info(interp, g)
    if items is not None:
        tot = 0
        for x in items:
            tot = tot + x
        return tot
    raise OutOfReach("sum over a symbolic non-generator")


# --------------------------------------------------------------------------------------------- list operations
def _norm_index(interp, lst, idx):
    n = lst.length
    c = conc(idx)
    if c is not None and isinstance(n, int):
        if not -n <= c < n:
            interp.raise_("IndexError", "list index out of range")
        return c % n if n else 0
    ok = And(zint(idx) >= -zint(n), zint(idx) < zint(n))
    if not interp.ctx.branch(ok, "index-in-range"):
        interp.raise_("IndexError", "list index out of range")
    if interp.ctx.branch(zint(idx) >= 0, "index-nonneg"):
        return idx
    return z3.simplify(zint(idx) + zint(n))


def list_getitem(interp, lst, idx):
    from . import npmodel
    idx = npmodel.as_index(interp, idx)
    if isinstance(idx, VSlice):
        return list_slice(interp, lst, idx)
    if not is_int(idx):
        interp.raise_("TypeError", "list indices must be integers or slices")
    i = _norm_index(interp, lst, idx)
    return lst.elem(i)


def list_slice(interp, lst, sl):
    if sl.step is not None:
        raise OutOfReach("slice step")
    n = lst.length
    interp.ctx.epoch += 1
    if lst.items is not None and all(x is None or conc(x) is not None for x in (sl.start, sl.stop)):
        return VList(lst.items[slice(conc(sl.start) if sl.start is not None else None, conc(sl.stop) if sl.stop is not None else None)], epoch=interp.ctx.epoch)
    start = 0 if sl.start is None else sl.start
    stop = n if sl.stop is None else sl.stop

    def clamp(x):
        x = zint(x)
        x = If(x < 0, If(x + zint(n) < 0, 0, x + zint(n)), x)
        return If(x > zint(n), zint(n), x)
    a, b = clamp(start), clamp(stop)
    ln = z3.simplify(If(b > a, b - a, 0))
    a = z3.simplify(a)
    out = VList(None, ln, (lambda j: lst.elem(a + j)), epoch=interp.ctx.epoch)
    out.slice_of = (lst, a)
    return out


def list_setitem(interp, lst, idx, v):
    if isinstance(idx, VSlice):
        raise OutOfReach("slice assignment on a list")
    i = _norm_index(interp, lst, idx)
    interp.writes.append((lst, "setitem"))
    if lst.items is not None:
        c = conc(i)
        if c is None:
            raise OutOfReach("symbolic index store into a concrete list")
        lst.items[c] = v
        return
    hook = getattr(lst, "on_setitem", None)
    if hook is not None:
        return hook(interp, lst, i, v)
    old = lst.at
    lst.at = lambda j: _ite_value(eq(zint(j), zint(i)), v, old(j))


def _ite_value(c, a, b):
    cc = conc(c) if not isinstance(c, bool) else c
    if cc is True:
        return a
    if cc is False:
        return b
    if is_int(a) and is_int(b):
        return If(c, a, b)
    raise OutOfReach("conditional element of a symbolic list")


def list_delitem(interp, lst, idx):
    if isinstance(idx, VSlice):
        raise OutOfReach("del of a list slice")
    i = _norm_index(interp, lst, idx)
    interp.writes.append((lst, "delitem"))
    hook = getattr(lst, "on_delitem", None)
    if hook is not None:
        return hook(interp, lst, i)
    if lst.items is not None:
        c = conc(i)
        if c is None:
            raise OutOfReach("symbolic del in a concrete list")
        del lst.items[c]
        return
    old, n = lst.at, lst.n
    lst.n = z3.simplify(zint(n) - 1)
    lst.at = lambda j: old(If(zint(j) < zint(i), zint(j), zint(j) + 1)) if True else None


def sym_list_eq(interp, a, b):
    """list == list for symbolic lists: same length and pairwise (identity or ==)"""
    ctx = interp.ctx
    j = z3.Const(f"leq!{ctx.uid()}", I)
    with Pure(ctx):
        t = elem_equal(interp, a.elem(j), b.elem(j))
    return And(eq(a.length, b.length), z3.ForAll([j], z3.Implies(zbool(rng(0, j, a.length)), zbool(t))))


def elem_equal(interp, x, y):
    """the test list membership / index use: identity or =="""
    if x is y:
        return True
    return interp.truth_term(interp.equals(x, y))


def list_contains(interp, lst, x):
    if lst.items is not None:
        r = False
        for y in lst.items:
            r = Or(r, elem_equal(interp, y, x))
        return r
    ctx = interp.ctx
    j = z3.Const(f"inj!{ctx.uid()}", I)
    with Pure(ctx):
        t = elem_equal(interp, lst.at(j), x)
    return z3.Exists([j], zbool(And(rng(0, j, lst.n), t)))


def list_method(interp, lst, name):
    from .core import VBuiltin
    ctx = interp.ctx

    def append(interp, args, kwargs):
        (x,) = args
        interp.writes.append((lst, "append"))
        cap = getattr(lst, "_capture", None)
        if cap:
            cap[-1].append(x)
            return None
        if interp.ctx.folds and lst not in interp.mut:
            raise OutOfReach("append inside a summarised loop to a list the engine does not track")
        hook = getattr(lst, "on_append", None)
        if hook is not None:
            return hook(interp, lst, x)
        if lst.items is not None:
            lst.items.append(x)
        else:
            old, n = lst.at, lst.n
            lst.n = z3.simplify(zint(n) + 1)
            lst.at = lambda j: _sel(eq(zint(j), zint(n)), x, old, j)
        return None

    def _sel(c, x, old, j):
        cc = conc(c) if not isinstance(c, bool) else c
        if cc is True:
            return x
        if cc is False:
            return old(j)
        if is_int(x):
            return If(c, x, old(j))
        return MixedElem(c, x, old(j))

    def index(interp, args, kwargs):
        (x,) = args
        if lst.items is not None:
            for i, y in enumerate(lst.items):
                if interp.ctx.branch(elem_equal(interp, y, x), "list.index"):
                    return i
            interp.raise_("ValueError", "x not in list")
        m = search_first(interp, 0, lst.n, lambda k: elem_equal(interp, lst.at(k), x), "list.index")
        if m is None:
            interp.raise_("ValueError", "x not in list")
        return m

    def remove(interp, args, kwargs):
        i = index(interp, args, kwargs)
        list_delitem(interp, lst, i)
        return None

    def copy(interp, args, kwargs):
        interp.ctx.epoch += 1
        if lst.items is not None:
            return VList(list(lst.items), epoch=interp.ctx.epoch)
        at, n = lst.at, lst.n
        return VList(None, n, at, epoch=interp.ctx.epoch)

    def extend(interp, args, kwargs):
        lo, hi, elem, items = iter_info(interp, args[0])
        if items is None or lst.items is None:
            raise OutOfReach("extend with symbolic sequences")
        lst.items.extend(items)

    table = {"append": append, "index": index, "remove": remove, "copy": copy, "extend": extend}
    if name not in table:
        interp.raise_("AttributeError", f"'list' object has no attribute '{name}'")
    return VBuiltin("list." + name, table[name])


class MixedElem:
    """element of a symbolic list that is x under condition c and otherwise y (objects, not ints)"""

    def __init__(self, c, x, y):
        self.c, self.x, self.y = c, x, y

    @property
    def maybe_none(self):
        """`self is None` as a term (interp.identical)"""
        if self.y is None and self.x is not None:
            return Not(self.c)
        if self.x is None and self.y is not None:
            return self.c
        return None


def resolve_mixed(ctx, v):
    """pick the alternative of a conditional object that the path condition entails (no fork); else leave it"""
    while isinstance(v, MixedElem):
        if ctx.entails(v.c):
            v = v.x
        elif ctx.entails(Not(v.c)):
            v = v.y
        else:
            break
    return v
