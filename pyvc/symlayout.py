"""Symbolic mode of the layout tables: emitter SymE (stream atoms over z3 terms), symbolic *valid* instances of the
library's classes (valid_T, DESIGN.md 3.2) built as objects of the real (interpreted) classes, their abstract views, and
the expected result of decoding (dec_T)."""
import z3

from spec.layouts import LAYOUTS
from . import npmodel
from .core import (And, B, I, If, Implies, Not, Or, OutOfReach, Seq, VDate, VEnum, VFloat, VList, VObj, VSlice, VStr, conc, eq,
                   is_int, rng, zbool, zint)
from .loader import isinf
from .npmodel import NANW, VDType, VNd, VRunsList, isnan
from .stream import AField, AFold, ALit, APad, ASub, AText, INT_RANGE


def F(name, arity, sort=I):
    return z3.Function(name, *([I] * arity), sort)


class Sym:
    """deterministically named symbols of the object at ``path`` indexed by ``idx`` (enclosing list positions)"""

    def __init__(self, path, idx=()):
        self.path, self.idx = path, tuple(zint(i) for i in idx)

    def int(self, name):
        f = F(f"{self.path}.{name}", len(self.idx))
        return f(*self.idx) if self.idx else z3.Const(f"{self.path}.{name}", I)

    def fun(self, name, arity, sort=I):
        f = F(f"{self.path}.{name}", len(self.idx) + arity, sort)
        return lambda *a: f(*(self.idx + tuple(zint(x) for x in a)))

    def child(self, name, *extra):
        return Sym(f"{self.path}.{name}", self.idx + tuple(extra))


def in_range(kind, x):
    lo, hi = INT_RANGE[kind]
    return And(zint(x) >= lo, zint(x) < hi)


# ------------------------------------------------------------------------------------------------ emitter
class SeqView:
    """foldable sequence for E.fold: elements at index terms lo <= k < hi"""

    def __init__(self, lo, hi, at):
        self.lo, self.hi, self.at = lo, hi, at


class SymE:
    def __init__(self, ctx, reading=False):
        self.ctx, self.atoms, self.reading = ctx, [], reading

    def _sub(self):
        return SymE(self.ctx, self.reading)

    def raw(self, b):
        self.atoms.append(ALit(b))

    def _one(self, kind, x):
        if isinstance(x, VFloat):
            x = npmodel.cast_float(x, kind)
        if isinstance(x, VEnum):
            x = x.val
        self.atoms.append(AField(kind, 1, Seq.of([x])))

    def i2(self, x): self._one("i2", x)
    def u2(self, x): self._one("u2", x)
    def i4(self, x): self._one("i4", x)
    def u4(self, x): self._one("u4", x)
    def f4(self, x): self._one("f4", x)
    def f8(self, x): self._one("f8", x)

    def _many(self, kind, n, seq):
        self.atoms.append(AField(kind, n, seq))

    def i2s(self, n, seq): self._many("i2", n, seq)
    def u2s(self, n, seq): self._many("u2", n, seq)
    def i4s(self, n, seq): self._many("i4", n, seq)
    def u4s(self, n, seq): self._many("u4", n, seq)
    def f4s(self, n, seq): self._many("f4", n, seq)
    def f8s(self, n, seq): self._many("f8", n, seq)

    def str(self, width, s):
        seq = s.seq if isinstance(s, VStr) else Seq.of([ord(c) for c in s])
        self.atoms.append(AText(seq))
        self.atoms.append(APad(1))
        self.atoms.append(APad(z3.simplify(width - zint(seq.n) - 1), dontcare=True))

    def date(self, d):
        self._one("i4", d.secs if isinstance(d, VDate) else d)

    def pad(self, n):
        self.atoms.append(APad(n, dontcare=True))

    def zeros(self, n):
        self.atoms.append(APad(n))

    def fold(self, seq, fn):
        def body(k):
            E = self._sub()
            fn(seq.at(k), E)
            return E.atoms
        self.atoms.append(AFold(seq.lo, seq.hi, body, tag="layout"))

    def sub(self, name, x):
        self.atoms.append(ASub(name, x, x.key, sub_len(name, x.key)))

    def when(self, cond, fn):
        c = conc(cond) if not isinstance(cond, bool) else cond
        if c is None:
            raise OutOfReach("symbolic layout variant")
        if c:
            fn(self)


FIXED_LEN = {}


def sub_len(name, key):
    if name in FIXED_LEN:
        return FIXED_LEN[name]
    path, idx = key[0], key[1:]
    f = F(f"len<{name}>{path}", len(idx))
    return f(*idx) if idx else z3.Const(f"len<{name}>{path}", I)


def layout_atoms(ctx, name, view, reading=False):
    E = SymE(ctx, reading)
    LAYOUTS[name](view, E)
    return E.atoms


# ------------------------------------------------------------------------------------------------ symbolic instances
class NS:
    def __init__(self, **kw):
        self.__dict__.update(kw)


class Rows:
    """word-array view for layouts: rows(start, n) / row(f) of a (N, w) or (N,) VNd"""

    def __init__(self, nd):
        self.nd = nd

    def rows(self, start, n):
        nd = self.nd
        w = 1
        for s in nd.shape[1:]:
            w = w * s
        if nd.ndim == 1:
            return Seq(n, lambda i: nd.get(zint(start) + i))
        if nd.ndim == 2:
            return Seq(n * w, lambda i: nd.get(zint(start) + zint(i) / w, zint(i) % w))
        raise OutOfReach("rows of a rank>2 array")

    def row(self, f):
        nd = self.nd
        if nd.ndim == 1:
            return Seq(1, lambda i: nd.get(f))
        return Seq(nd.shape[1], lambda i: nd.get(f, i))


def sym_str(s, name, width, assume):
    """valid text for a fixed-width field: cp1252-encodable, NUL-free, shorter than the field"""
    n = s.int(name + ".len")
    ch = s.fun(name + ".chr", 1)
    j = z3.Const(f"c!{s.path}.{name}", I)
    assume.append(And(n >= 0, n < width))
    assume.append(z3.ForAll([j], z3.Implies(z3.And(0 <= j, j < n), z3.And(npmodel.cp_enc_ok(ch(j)), ch(j) != 0))))
    return VStr(Seq(n, ch))


def sym_nd(s, name, shape, kind, assume=None):
    """array at its on-disk width; with ``assume`` given: no NaN (NaN is only allowed as a wholly-missing frame of a track)"""
    f = s.fun(name, len(shape))
    nd = VNd(tuple(shape), VDType(kind), lambda *i: f(*i), label=f"{s.path}.{name}")
    if assume is not None and kind in ("f4", "f8"):
        idx = [z3.Const(f"nn{d}!{s.path}.{name}", I) for d in range(len(shape))]
        assume.append(z3.ForAll(idx, z3.Not(isnan(f(*idx)))))
    return nd


def sym_float(s, name, kind="f4", assume=None):
    """a float already at its on-disk width (valid_T), not NaN"""
    w = s.int(name)
    if assume is not None:
        assume.append(z3.Not(isnan(w)))
    return VFloat(w, kind)


def sym_int(s, name, kind, assume):
    x = s.int(name)
    assume.append(in_range(kind, x))
    return x


def sym_enum(interp, s, name, cls, assume, allowed=None):
    x = s.int(name)
    members = [m for m in cls.members.values() if allowed is None or m.name in allowed]
    assume.append(Or(*[x == m.val for m in members]))
    return VEnum(cls, x)


def gapped(s, N, comps, assume):
    """presence structure of a run-length coded track: ``comps`` = [(name, nd)], the first one leads.
    NaN only as a wholly-missing frame; no +-inf in the leading component (documented domain assumption)."""
    lead = comps[0][1]
    f = z3.Const(f"f!{s.path}", I)

    def first(nd, fr):
        return nd.get(fr) if nd.ndim == 1 else nd.get(fr, 0)
    for nm, nd in comps:
        idx = [z3.Const(f"c{d}!{s.path}.{nm}", I) for d in range(nd.ndim - 1)]
        inb = z3.And(0 <= f, f < zint(N), *[z3.And(0 <= c, c < nd.shape[d + 1]) for d, c in enumerate(idx)])
        assume.append(z3.ForAll([f] + idx, z3.Implies(inb, isnan(nd.get(f, *idx)) == isnan(first(lead, f)))))
        assume.append(z3.ForAll([f] + idx, z3.Implies(inb, z3.Not(isinf(nd.get(f, *idx))))))
    present = lambda fr: Not(isnan(first(lead, fr)))
    n = s.int("nruns")
    st, sp = s.fun("run_start", 1), s.fun("run_stop", 1)
    return present, n, st, sp


def runs_assume(ctx, o):
    from .loader import assume_runs
    assume_runs(ctx, o.N, o.present, o.nruns, o.run_start, o.run_stop)


def runs_view(n, st, sp):
    return SeqView(0, n, lambda k: NS(start=st(k), len=sp(k) - st(k), frames=SeqView(st(k), sp(k), lambda f: f)))


class Spec:
    """per layout: how to make a symbolic valid instance of the real class, view it, call the real code, and what a
    decode must return"""
    variants = [None]
    build_extra = ()

    def __init__(self, name, cls):
        self.name, self.cls = name, cls

    def klass(self, interp):
        mod, c = self.cls.rsplit(".", 1)
        return interp.loader.import_module(interp, mod).ns[c]

    def new(self, interp, key):
        o = VObj(self.klass(interp), epoch=0, label=str(key[0]))
        o.key = tuple(key)
        o.layout = self.name
        return o


SPECS = {}


def spec(name, cls):
    def deco(c):
        SPECS[name] = c(name, cls)
        return c
    return deco


def _track_common(self, interp, o, s, N, comps, assume, with_label=True):
    from .loader import assume_runs
    present, n, st, sp = gapped(s, N, comps, assume)
    o.present, o.nruns, o.run_start, o.run_stop, o.N = present, n, st, sp, N
    assume.append(N >= 1)


@spec("MarkerTrack", "basictdf.tdfData3D.MarkerTrack")
class _MarkerTrack(Spec):
    def make(self, interp, path, idx, assume, N=None, variant=None):
        s = Sym(path, idx)
        o = self.new(interp, (path,) + tuple(idx))
        N = s.int("N") if N is None else N
        o.fields["label"] = sym_str(s, "label", 256, assume)
        o.fields["data"] = sym_nd(s, "data", (N, 3), "f4")
        _track_common(self, interp, o, s, N, [("data", o.fields["data"])], assume)
        return o

    def view(self, o):
        return NS(label=o.fields["label"], nruns=o.nruns, runs=runs_view(o.nruns, o.run_start, o.run_stop), data=Rows(o.fields["data"]))

    def build_args(self, o):
        return [o.N]

    comps = ["data"]


@spec("EMGTrack", "basictdf.tdfEMG.EMGTrack")
class _EMGTrack(Spec):
    def make(self, interp, path, idx, assume, N=None, variant=None):
        s = Sym(path, idx)
        o = self.new(interp, (path,) + tuple(idx))
        N = s.int("N") if N is None else N
        o.fields["label"] = sym_str(s, "label", 256, assume)
        o.fields["data"] = sym_nd(s, "data", (N,), "f4")
        _track_common(self, interp, o, s, N, [("data", o.fields["data"])], assume)
        return o

    view = _MarkerTrack.view
    build_args = _MarkerTrack.build_args
    comps = ["data"]


@spec("ForceTorqueTrack", "basictdf.tdfForce3D.ForceTorqueTrack")
class _FTTrack(Spec):
    comps = ["application_point", "force", "torque"]

    def make(self, interp, path, idx, assume, N=None, variant=None):
        s = Sym(path, idx)
        o = self.new(interp, (path,) + tuple(idx))
        N = s.int("N") if N is None else N
        o.fields["label"] = sym_str(s, "label", 256, assume)
        for c in self.comps:
            o.fields[c] = sym_nd(s, c, (N, 3), "f4")
        _track_common(self, interp, o, s, N, [(c, o.fields[c]) for c in self.comps], assume)
        return o

    def view(self, o):
        return NS(label=o.fields["label"], nruns=o.nruns, runs=runs_view(o.nruns, o.run_start, o.run_stop),
                  application_point=Rows(o.fields["application_point"]), force=Rows(o.fields["force"]), torque=Rows(o.fields["torque"]))

    build_args = _MarkerTrack.build_args


@spec("PlatformData", "basictdf.tdfForcePlatformsData.ForcePlatformData")
class _PlatData(Spec):
    comps = ["application_point", "force", "torque"]
    widths = {"application_point": 2, "force": 3, "torque": 0}

    def make(self, interp, path, idx, assume, N=None, variant=None):
        s = Sym(path, idx)
        o = self.new(interp, (path,) + tuple(idx))
        N = s.int("N") if N is None else N
        for c in self.comps:
            w = self.widths[c]
            o.fields[c] = sym_nd(s, c, (N, w) if w else (N,), "f4")
        _track_common(self, interp, o, s, N, [(c, o.fields[c]) for c in self.comps], assume)
        return o

    def view(self, o):
        return NS(nruns=o.nruns, runs=runs_view(o.nruns, o.run_start, o.run_stop),
                  application_point=Rows(o.fields["application_point"]), force=Rows(o.fields["force"]), torque=Rows(o.fields["torque"]))

    def build_args(self, o):
        return ["FORMAT", o.N]


def _items(interp, s, name, item_spec, n, assume, **kw):
    """symbolic list of n valid items of ``item_spec``; validity quantified over the position"""
    j = z3.Const(f"pos!{s.path}.{name}", I)
    inner = []
    SPECS[item_spec].make(interp, f"{s.path}.{name}", s.idx + (j,), inner, **kw)
    if inner:
        assume.append(z3.ForAll([j], z3.Implies(z3.And(0 <= j, j < n), z3.And(*[zbool(a) for a in inner]))))
    assume.append(z3.ForAll([j], z3.Implies(z3.And(0 <= j, j < n), sub_len(item_spec, (f"{s.path}.{name}",) + s.idx + (j,)) >= 0)))
    lst = VList(None, n, lambda k: SPECS[item_spec].make(interp, f"{s.path}.{name}", s.idx + (zint(k),), [], **kw), label=f"{s.path}.{name}")
    lst.key = (f"{s.path}.{name}",) + s.idx
    return lst


def items_view(lst):
    return SeqView(0, lst.n, lst.at)


def _geometry(o, s, assume=None):
    o.fields["volume"] = sym_nd(s, "volume", (3,), "f4", assume)
    o.fields["rotationMatrix"] = sym_nd(s, "rotationMatrix", (3, 3), "f4", assume)
    o.fields["translationVector"] = sym_nd(s, "translationVector", (3,), "f4", assume)


def _block_dates(interp, o, s):
    for d in ("creation_date", "last_modification_date", "last_access_date"):
        o.fields[d] = VDate(s.int(d), s.int(d + ".frac"))


@spec("Data3D", "basictdf.tdfData3D.Data3D")
class _Data3D(Spec):
    variants = ["byTrack", "byTrackWithoutLinks", "byTrack-nolinks-attr"]

    def make(self, interp, path, idx, assume, variant="byTrack"):
        s = Sym(path, idx)
        o = self.new(interp, (path,) + tuple(idx))
        mod = interp.loader.import_module(interp, "basictdf.tdfData3D")
        fmt = mod.ns["Data3dBlockFormat"].members[variant.split("-")[0]]
        o.fields["format"] = fmt
        N = sym_int(s, "nFrames", "i4", assume)
        assume.append(N >= 1)
        o.fields["nFrames"] = N
        o.fields["frequency"] = sym_int(s, "frequency", "i4", assume)
        o.fields["startTime"] = sym_float(s, "startTime", assume=assume)
        o.fields["flag"] = sym_enum(interp, s, "flag", mod.ns["Flags"], assume)
        _geometry(o, s, assume)
        _block_dates(interp, o, s)
        nT = s.int("nTracks")
        assume.append(And(nT >= 0, nT < 2**31))
        o.fields["_tracks"] = _items(interp, s, "_tracks", "MarkerTrack", nT, assume, N=N)
        o.variant = variant
        if variant == "byTrack":
            nL = s.int("nLinks")
            assume.append(And(nL >= 0, nL < 2**31))
            t1, t2 = s.fun("links.Track1", 1), s.fun("links.Track2", 1)
            j = z3.Const(f"lk!{path}", I)
            assume.append(z3.ForAll([j], z3.Implies(z3.And(0 <= j, j < nL), z3.And(in_range("u4", t1(j)), in_range("u4", t2(j))))))
            lt = mod.ns["LinkType"].fields["btype"]
            o.fields["links"] = VNd((nL,), lt, None, {"Track1": VNd((nL,), VDType("u4"), lambda i: t1(i)), "Track2": VNd((nL,), VDType("u4"), lambda i: t2(i))})
        return o

    def view(self, o):
        has_links = o.fields["format"].name == "byTrack"
        links = o.fields.get("links")
        nL = links.shape[0] if links is not None else 0
        return NS(nFrames=o.fields["nFrames"], frequency=o.fields["frequency"], startTime=o.fields["startTime"],
                  nTracks=o.fields["_tracks"].length, volume=o.fields["volume"].flat(), rotationMatrix=o.fields["rotationMatrix"].flat(),
                  translationVector=o.fields["translationVector"].flat(), flag=o.fields["flag"], has_links=has_links, nLinks=nL,
                  links=SeqView(0, nL, lambda k: NS(track1=links.fields["Track1"].get(k), track2=links.fields["Track2"].get(k))) if links is not None else SeqView(0, 0, lambda k: NS(track1=0, track2=0)),
                  tracks=items_view(o.fields["_tracks"]))

    def build_args(self, o):
        return [o.fields["format"].val]


@spec("EMG", "basictdf.tdfEMG.EMG")
class _EMG(Spec):
    def make(self, interp, path, idx, assume, variant=None):
        s = Sym(path, idx)
        o = self.new(interp, (path,) + tuple(idx))
        mod = interp.loader.import_module(interp, "basictdf.tdfEMG")
        o.fields["format"] = mod.ns["EMGBlockFormat"].members["byTrack"]
        N = s.int("nSamples")
        assume.append(And(N >= 1, in_range("i4", N - 49), in_range("i4", N)))
        o.fields["nSamples"] = N
        o.fields["frequency"] = sym_int(s, "frequency", "i4", assume)
        o.fields["startTime"] = sym_float(s, "startTime", assume=assume)
        _block_dates(interp, o, s)
        n = s.int("nSignals")
        assume.append(And(n >= 0, n < 2**31))
        o.fields["_signals"] = _items(interp, s, "_signals", "EMGTrack", n, assume, N=N)
        ch = s.fun("emgMap", 1)
        j, j2 = z3.Const(f"ch!{path}", I), z3.Const(f"ch2!{path}", I)
        assume.append(z3.ForAll([j], z3.Implies(z3.And(0 <= j, j < n), in_range("i2", ch(j)))))
        assume.append(z3.ForAll([j, j2], z3.Implies(z3.And(0 <= j, j < j2, j2 < n), ch(j) != ch(j2))))
        o.fields["_emgMap"] = VList(None, n, lambda k: ch(k), label=f"{path}._emgMap")
        return o

    def view(self, o):
        m = o.fields["_emgMap"]
        return NS(nSignals=o.fields["_signals"].length, frequency=o.fields["frequency"], startTime=o.fields["startTime"],
                  nSamples=o.fields["nSamples"], emgMap=Seq(m.length, m.elem), signals=items_view(o.fields["_signals"]))

    def build_args(self, o):
        return [o.fields["format"].val]


@spec("ForceTorque3D", "basictdf.tdfForce3D.ForceTorque3D")
class _FT3D(Spec):
    def make(self, interp, path, idx, assume, variant=None):
        s = Sym(path, idx)
        o = self.new(interp, (path,) + tuple(idx))
        mod = interp.loader.import_module(interp, "basictdf.tdfForce3D")
        o.fields["format"] = mod.ns["ForceTorque3DBlockFormat"].members["byTrack"]
        N = sym_int(s, "nFrames", "i4", assume)
        assume.append(N >= 1)
        o.fields["nFrames"] = N
        o.fields["frequency"] = sym_int(s, "frequency", "i4", assume)
        o.fields["startTime"] = sym_float(s, "startTime", assume=assume)
        _geometry(o, s, assume)
        _block_dates(interp, o, s)
        nT = s.int("nTracks")
        assume.append(And(nT >= 0, nT < 2**31))
        o.fields["_tracks"] = _items(interp, s, "_tracks", "ForceTorqueTrack", nT, assume, N=N)
        return o

    def view(self, o):
        return NS(nTracks=o.fields["_tracks"].length, frequency=o.fields["frequency"], startTime=o.fields["startTime"], nFrames=o.fields["nFrames"],
                  volume=o.fields["volume"].flat(), rotationMatrix=o.fields["rotationMatrix"].flat(),
                  translationVector=o.fields["translationVector"].flat(), tracks=items_view(o.fields["_tracks"]))

    def build_args(self, o):
        return [o.fields["format"].val]


@spec("PlatformsData", "basictdf.tdfForcePlatformsData.ForcePlatformsDataBlock")
class _PlatsData(Spec):
    def make(self, interp, path, idx, assume, variant=None):
        s = Sym(path, idx)
        o = self.new(interp, (path,) + tuple(idx))
        mod = interp.loader.import_module(interp, "basictdf.tdfForcePlatformsData")
        o.fields["format"] = mod.ns["ForcePlatformBlockFormat"].members["byTrackISSFormat"]
        N = sym_int(s, "n_frames", "i4", assume)
        assume.append(N >= 1)
        o.fields["n_frames"] = N
        o.fields["frequency"] = sym_int(s, "frequency", "i4", assume)
        o.fields["start_time"] = sym_float(s, "start_time", assume=assume)
        _block_dates(interp, o, s)
        n = s.int("nPlatforms")
        assume.append(And(n >= 0, n < 2**31))
        o.fields["_platforms"] = _items(interp, s, "_platforms", "PlatformData", n, assume, N=N)
        ch = s.fun("plat_map", 1)
        j, j2 = z3.Const(f"ch!{path}", I), z3.Const(f"ch2!{path}", I)
        assume.append(z3.ForAll([j], z3.Implies(z3.And(0 <= j, j < n), in_range("u2", ch(j)))))
        assume.append(z3.ForAll([j, j2], z3.Implies(z3.And(0 <= j, j < j2, j2 < n), ch(j) != ch(j2))))
        o.fields["_plat_map"] = VList(None, n, lambda k: ch(k), label=f"{path}._plat_map")
        return o

    def view(self, o):
        m = o.fields["_plat_map"]
        return NS(nPlatforms=o.fields["_platforms"].length, frequency=o.fields["frequency"], start_time=o.fields["start_time"],
                  n_frames=o.fields["n_frames"], platMap=Seq(m.length, m.elem), platforms=items_view(o.fields["_platforms"]))

    def build_args(self, o):
        return [o.fields["format"].val]


@spec("PlatformInfo", "basictdf.tdfForcePlatformsCalibration.ForcePlatformInfo")
class _PlatInfo(Spec):
    def make(self, interp, path, idx, assume, variant=None):
        s = Sym(path, idx)
        o = self.new(interp, (path,) + tuple(idx))
        o.fields["label"] = sym_str(s, "label", 256, assume)
        o.fields["size"] = sym_nd(s, "size", (2,), "f4", assume)
        o.fields["position"] = sym_nd(s, "position", (4, 3), "f4", assume)
        return o

    def view(self, o):
        return NS(label=o.fields["label"], size=o.fields["size"].flat(), position=o.fields["position"].flat())

    def build_args(self, o):
        return []


@spec("PlatformsCalibration", "basictdf.tdfForcePlatformsCalibration.ForcePlatformsCalibrationDataBlock")
class _PlatsCal(Spec):
    def make(self, interp, path, idx, assume, variant=None):
        s = Sym(path, idx)
        o = self.new(interp, (path,) + tuple(idx))
        mod = interp.loader.import_module(interp, "basictdf.tdfForcePlatformsCalibration")
        o.fields["format"] = mod.ns["ForcePlatformCalibrationBlockFormat"].members["GRPFormat"]
        _block_dates(interp, o, s)
        n = s.int("nPlatforms")
        assume.append(And(n >= 0, n < 2**31))
        o.fields["_platforms"] = _items(interp, s, "_platforms", "PlatformInfo", n, assume)
        ch = s.fun("platformMap", 1)
        j, j2 = z3.Const(f"ch!{path}", I), z3.Const(f"ch2!{path}", I)
        assume.append(z3.ForAll([j], z3.Implies(z3.And(0 <= j, j < n), in_range("i2", ch(j)))))
        assume.append(z3.ForAll([j, j2], z3.Implies(z3.And(0 <= j, j < j2, j2 < n), ch(j) != ch(j2))))
        o.fields["_platformMap"] = VList(None, n, lambda k: ch(k), label=f"{path}._platformMap")
        return o

    def view(self, o):
        m = o.fields["_platformMap"]
        return NS(nPlatforms=o.fields["_platforms"].length, platformMap=Seq(m.length, m.elem), platforms=items_view(o.fields["_platforms"]))

    def build_args(self, o):
        return [o.fields["format"].val]


@spec("Viewport", "basictdf.tdfTypes.CameraViewPort")
class _Viewport(Spec):
    def make(self, interp, path, idx, assume, variant=None):
        s = Sym(path, idx)
        o = self.new(interp, (path,) + tuple(idx))
        for nm in ("origin", "size"):
            nd = sym_nd(s, nm, (2,), "i4")
            j = z3.Const(f"vp!{path}.{nm}", I)
            assume.append(z3.ForAll([j], z3.Implies(z3.And(0 <= j, j < 2), in_range("i4", nd.get(j)))))
            o.fields[nm] = nd
        return o

    def view(self, o):
        return NS(origin=o.fields["origin"].flat(), size=o.fields["size"].flat())

    def build_args(self, o):
        return []


def _sub_obj(interp, s, name, item_spec, assume):
    assume.append(sub_len(item_spec, (f"{s.path}.{name}",) + s.idx) >= 0)
    return SPECS[item_spec].make(interp, f"{s.path}.{name}", s.idx, assume)


@spec("SeelabCamera", "basictdf.tdfCalibrationData.SeelabCameraData")
class _Seelab(Spec):
    arrs = [("rotation_matrix", (3, 3)), ("translation_vector", (3,)), ("focus", (2,)), ("optical_center", (2,)),
            ("radial_distortion", (2,)), ("decentering", (2,)), ("thin_prism", (2,))]

    def make(self, interp, path, idx, assume, variant=None):
        s = Sym(path, idx)
        o = self.new(interp, (path,) + tuple(idx))
        for nm, shp in self.arrs:
            o.fields[nm] = sym_nd(s, nm, shp, "f8", assume)
        o.fields["view_port"] = _sub_obj(interp, s, "view_port", "Viewport", assume)
        return o

    def view(self, o):
        d = {nm: o.fields[nm].flat() for nm, _ in self.arrs}
        return NS(view_port=o.fields["view_port"], **d)

    def build_args(self, o):
        return []


@spec("BTSCamera", "basictdf.tdfCalibrationData.BTSCameraData")
class _BTSCam(Spec):
    arrs = [("rotation_matrix", (3, 3)), ("translation_vector", (3,)), ("focus", (2,)), ("optical_center", (2,))]
    variants = ["short", "full"]      # short: any number <= 70 of coefficients per axis (C02); full: exactly 70 (what a decoder returns)

    def make(self, interp, path, idx, assume, variant="full"):
        s = Sym(path, idx)
        o = self.new(interp, (path,) + tuple(idx))
        for nm, shp in self.arrs:
            o.fields[nm] = sym_nd(s, nm, shp, "f8", assume)
        for nm, cnt in (("x_distortion_coefficients", "nx"), ("y_distortion_coefficients", "ny")):
            if variant == "full":
                n = 70
            else:
                n = s.int(cnt)
                assume.append(And(n >= 0, n <= 70))
            o.fields[nm] = sym_nd(s, nm, (n,), "f8", assume)
        o.fields["view_port"] = _sub_obj(interp, s, "view_port", "Viewport", assume)
        return o

    def view(self, o):
        d = {nm: o.fields[nm].flat() for nm, _ in self.arrs}
        x, y = o.fields["x_distortion_coefficients"], o.fields["y_distortion_coefficients"]
        return NS(view_port=o.fields["view_port"], x_distortion_coefficients=x.flat(), y_distortion_coefficients=y.flat(),
                  nx=x.shape[0], ny=y.shape[0], **d)

    build_args = _Seelab.build_args


@spec("Calibration", "basictdf.tdfCalibrationData.CalibrationDataBlock")
class _Calibration(Spec):
    variants = ["Seelab1", "BTS"]

    def make(self, interp, path, idx, assume, variant="Seelab1"):
        s = Sym(path, idx)
        o = self.new(interp, (path,) + tuple(idx))
        mod = interp.loader.import_module(interp, "basictdf.tdfCalibrationData")
        o.fields["format"] = mod.ns["CalibrationDataBlockFormat"].members[variant]
        o.fields["distorsion_model"] = sym_enum(interp, s, "distorsion_model", mod.ns["DistorsionModel"], assume)
        o.fields["calibration_volume_size"] = sym_nd(s, "calibration_volume_size", (3,), "f4", assume)
        o.fields["calibration_volume_rotation_matrix"] = sym_nd(s, "calibration_volume_rotation_matrix", (3, 3), "f4", assume)
        o.fields["calibration_volume_translation_vector"] = sym_nd(s, "calibration_volume_translation_vector", (3,), "f4", assume)
        _block_dates(interp, o, s)
        n = s.int("nCams")
        assume.append(And(n >= 0, n < 2**31))
        cm = sym_nd(s, "cameras_calibration_map", (n,), "i2")
        j = z3.Const(f"cm!{path}", I)
        assume.append(z3.ForAll([j], z3.Implies(z3.And(0 <= j, j < n), in_range("i2", cm.get(j)))))
        o.fields["cameras_calibration_map"] = cm
        o.fields["cam_data"] = _items(interp, s, "cam_data", "SeelabCamera" if variant == "Seelab1" else "BTSCamera", n, assume)
        return o

    def view(self, o):
        f = o.fields
        return NS(nCams=f["cam_data"].length, distorsion_model=f["distorsion_model"], calibration_volume_size=f["calibration_volume_size"].flat(),
                  calibration_volume_rotation_matrix=f["calibration_volume_rotation_matrix"].flat(),
                  calibration_volume_translation_vector=f["calibration_volume_translation_vector"].flat(),
                  cameras_calibration_map=f["cameras_calibration_map"].flat(), cam_data=items_view(f["cam_data"]),
                  is_seelab=f["format"].name == "Seelab1", is_bts=f["format"].name == "BTS")

    def build_args(self, o):
        return [o.fields["format"].val]


@spec("OpticalChannel", "basictdf.tdfOpticalSystem.OpticalChannelData")
class _OptChannel(Spec):
    def make(self, interp, path, idx, assume, variant=None):
        s = Sym(path, idx)
        o = self.new(interp, (path,) + tuple(idx))
        o.fields["logical_camera_index"] = sym_int(s, "logical_camera_index", "i4", assume)
        for nm in ("lens_name", "camera_type", "camera_name"):
            o.fields[nm] = sym_str(s, nm, 32, assume)
        o.fields["camera_viewport"] = _sub_obj(interp, s, "camera_viewport", "Viewport", assume)
        return o

    def view(self, o):
        f = o.fields
        return NS(logical_camera_index=f["logical_camera_index"], lens_name=f["lens_name"], camera_type=f["camera_type"],
                  camera_name=f["camera_name"], camera_viewport=f["camera_viewport"])

    def build_args(self, o):
        return []


@spec("OpticalSetup", "basictdf.tdfOpticalSystem.OpticalSetupBlock")
class _OptSetup(Spec):
    def make(self, interp, path, idx, assume, variant=None):
        s = Sym(path, idx)
        o = self.new(interp, (path,) + tuple(idx))
        mod = interp.loader.import_module(interp, "basictdf.tdfOpticalSystem")
        o.fields["format"] = mod.ns["OpticalSetupBlockFormat"].members["basicFormat"]
        _block_dates(interp, o, s)
        n = s.int("nChannels")
        assume.append(And(n >= 0, n < 2**31))
        o.fields["channels"] = _items(interp, s, "channels", "OpticalChannel", n, assume)
        return o

    def view(self, o):
        return NS(nChannels=o.fields["channels"].length, channels=items_view(o.fields["channels"]))

    def build_args(self, o):
        return [o.fields["format"].val]


@spec("Event", "basictdf.tdfEvents.Event")
class _Event(Spec):
    def make(self, interp, path, idx, assume, variant=None):
        s = Sym(path, idx)
        o = self.new(interp, (path,) + tuple(idx))
        mod = interp.loader.import_module(interp, "basictdf.tdfEvents")
        o.fields["label"] = sym_str(s, "label", 256, assume)
        o.fields["type"] = sym_enum(interp, s, "type", mod.ns["EventsDataType"], assume)
        n = s.int("nValues")
        assume.append(And(n >= 0, n < 2**31, Implies(o.fields["type"].val == 0, n <= 1)))
        o.fields["values"] = sym_nd(s, "values", (n,), "f4", assume)
        return o

    def view(self, o):
        v = o.fields["values"]
        return NS(label=o.fields["label"], type=o.fields["type"], nValues=v.shape[0], values=v.flat())

    def build_args(self, o):
        return []


@spec("Events", "basictdf.tdfEvents.TemporalEventsData")
class _Events(Spec):
    def make(self, interp, path, idx, assume, variant=None):
        s = Sym(path, idx)
        o = self.new(interp, (path,) + tuple(idx))
        mod = interp.loader.import_module(interp, "basictdf.tdfEvents")
        o.fields["format"] = mod.ns["TemporalEventsDataFormat"].members["standard"]
        o.fields["start_time"] = sym_float(s, "start_time", assume=assume)
        _block_dates(interp, o, s)
        n = s.int("nEvents")
        assume.append(And(n >= 0, n < 2**31))
        o.fields["events"] = _items(interp, s, "events", "Event", n, assume)
        return o

    def view(self, o):
        return NS(nEvents=o.fields["events"].length, start_time=o.fields["start_time"], events=items_view(o.fields["events"]))

    def build_args(self, o):
        return [o.fields["format"].val]


def opt_parts(e):
    """(present, value) of an optional cell of an object array: None, a value, or a value under a condition"""
    from .loops import MixedElem
    if e is None:
        return False, None
    if isinstance(e, MixedElem):
        if e.y is None:
            return e.c, e.x
        if e.x is None:
            return Not(e.c), e.y
        raise OutOfReach("object-array cell with two non-None alternatives")
    return True, e


@spec("Data2DPCK", "basictdf.tdfData2D.Data2DPCK")
class _Data2DPCK(Spec):
    """data: (nFrames, nCams) object array; a cell is None or an (n, 2) float32 array with 1 <= n < 2**16 points
    (valid_T: an empty array in a cell is not canonical -- it is written as 'no points' and decodes as None)"""

    def make(self, interp, path, idx, assume, nF=None, nC=None, variant=None):
        from .loops import MixedElem
        s = Sym(path, idx)
        o = self.new(interp, (path,) + tuple(idx))
        nF = s.int("nFrames") if nF is None else nF
        nC = s.int("nCams") if nC is None else nC
        assume.append(And(nF >= 0, nC >= 0, nF < 2**31, nC < 2**31))
        present = s.fun("present", 2, B)
        npts = s.fun("npts", 2)
        pts = s.fun("pts", 4)
        f, c = z3.Const(f"f!{s.path}", I), z3.Const(f"c!{s.path}", I)
        assume.append(z3.ForAll([f, c], z3.And(npts(f, c) >= 1, npts(f, c) < 65536)))

        def cell(f_, c_):
            nd = VNd((npts(f_, c_), 2), VDType("f4"), (lambda p_, x_, f_=f_, c_=c_: pts(f_, c_, p_, x_)), label=f"{s.path}.cell")
            return MixedElem(present(f_, c_), nd, None)
        o.fields["data"] = VNd((nF, nC), VDType("obj"), cell, label=f"{s.path}.data")
        o.nF, o.nC = nF, nC
        return o

    def view(self, o):
        d = o.fields["data"]
        nF, nC = d.shape

        def count(f, c):
            p, x = opt_parts(d.get(f, c))
            if x is None:
                return 0
            return x.shape[0] if p is True else If(p, x.shape[0], 0)

        def points(f, c):
            p, x = opt_parts(d.get(f, c))
            if x is None:
                return Seq(0, lambda i: 0)
            return Seq(2 * count(f, c), lambda i, x=x: x.get(zint(i) / 2, zint(i) % 2))
        return NS(cameras=SeqView(0, nC, lambda k: k), frames=SeqView(0, nF, lambda k: k), count=count, points=points)

    def build_args(self, o):
        return [o.nF, o.nC]


@spec("Data2D", "basictdf.tdfData2D.Data2D")
class _Data2D(Spec):
    """PCK format; camera channels below 2**15 (the map is written through the signed 16-bit codec and read back
    through the unsigned one: same bytes in that range -- documented domain restriction of valid_T)"""

    def make(self, interp, path, idx, assume, variant=None):
        s = Sym(path, idx)
        o = self.new(interp, (path,) + tuple(idx))
        mod = interp.loader.import_module(interp, "basictdf.tdfData2D")
        o.fields["format"] = mod.ns["Data2DBlockFormat"].members["PCKFormat"]
        nC = sym_int(s, "nCams", "i4", assume)
        nF = sym_int(s, "nFrames", "i4", assume)
        assume.append(And(nC >= 0, nF >= 0))
        o.fields["nCams"], o.fields["nFrames"] = nC, nF
        o.fields["frequency"] = sym_int(s, "frequency", "i4", assume)
        o.fields["startTime"] = sym_float(s, "startTime", assume=assume)
        o.fields["flags"] = sym_enum(interp, s, "flags", mod.ns["Data2DFlags"], assume)
        _block_dates(interp, o, s)
        cm = s.fun("camMap", 1)
        j = z3.Const(f"cm!{path}", I)
        assume.append(z3.ForAll([j], z3.And(cm(j) >= 0, cm(j) < 2**15)))
        o.fields["_camMap"] = VNd((nC,), VDType("u2"), lambda i: cm(i), label=f"{path}._camMap")
        o.fields["_data"] = SPECS["Data2DPCK"].make(interp, path + "._data", idx, assume, nF=nF, nC=nC)
        return o

    def view(self, o):
        f = o.fields
        return NS(nCams=f["nCams"], nFrames=f["nFrames"], frequency=f["frequency"], startTime=f["startTime"], flags=f["flags"],
                  camMap=f["_camMap"].flat(), pck=f["_data"])

    def build_args(self, o):
        return [o.fields["format"].val]


@spec("Entry", "basictdf.basictdf.TdfEntry")
class _Entry(Spec):
    def make(self, interp, path, idx, assume, variant=None):
        s = Sym(path, idx)
        o = self.new(interp, (path,) + tuple(idx))
        mod = interp.loader.import_module(interp, "basictdf.tdfBlock")
        o.fields["type"] = sym_enum(interp, s, "type", mod.ns["BlockType"], assume)
        o.fields["format"] = sym_int(s, "format", "u4", assume)
        assume.append(o.fields["format"] < 2**31)
        o.fields["offset"] = sym_int(s, "offset", "i4", assume)
        o.fields["size"] = sym_int(s, "size", "i4", assume)
        for d in ("creation_date", "last_modification_date", "last_access_date"):
            secs = s.int(d)
            assume.append(And(secs >= 0, secs < 2**31))
            o.fields[d] = VDate(secs, s.int(d + ".frac"))
        o.fields["comment"] = sym_str(s, "comment", 256, assume)
        o.fields["nBytes"] = 288
        return o

    def view(self, o):
        f = o.fields
        return NS(type=f["type"], format=f["format"], offset=f["offset"], size=f["size"], creation_date=f["creation_date"],
                  last_modification_date=f["last_modification_date"], last_access_date=f["last_access_date"], comment=f["comment"])

    def build_args(self, o):
        return []


def compute_fixed_lengths(interp):
    """layouts whose encoding has a constant length (from the tables themselves): Viewport 16, PlatformInfo 568, ..."""
    from .stream import slen
    for name in ("Viewport", "PlatformInfo", "SeelabCamera", "BTSCamera", "OpticalChannel", "Entry"):
        if name in FIXED_LEN:
            continue
        o = SPECS[name].make(interp, "probe", (), [])
        n = conc(slen(interp.ctx, layout_atoms(interp.ctx, name, SPECS[name].view(o))))
        if n is not None:
            FIXED_LEN[name] = n
