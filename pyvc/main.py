"""Driver:  python -m pyvc.main <ID> [--tier quick|thorough] [--replay FILE] [--src DIR]

exit 0 = property held on everything explored (KNOWN-FINDING lines possible); 1 = VIOLATION line printed;
2 = undecided and no bounded stand-in could run; 3 = checker crash / engine self-check failed."""
import argparse
import hashlib
import json
import multiprocessing as mp
import os
import sys
import time
import traceback

VERIF = os.path.dirname(os.path.dirname(os.path.abspath(__file__)))
sys.path.insert(0, VERIF)


def _src_root(args_src=None):
    return args_src or os.environ.get("BASICTDF_SRC") or "/repo/src"


# --------------------------------------------------------------------------------------------- deductive part (workers)
def _all_tasks():
    from pyvc import tasks_codec, tasks_prims
    tasks = tasks_codec.all_tasks() + tasks_prims.all_tasks()
    for modname in ("tasks_obj", "tasks_container", "tasks_access"):
        try:
            mod = __import__("pyvc." + modname, fromlist=["all_tasks"])
            tasks += mod.all_tasks()
        except ImportError:
            pass
    return tasks


def _contracts():
    from pyvc import codec
    c = dict(codec.CONTRACTS)
    for modname in ("contracts_obj", "contracts_container"):
        try:
            mod = __import__("pyvc." + modname, fromlist=["CONTRACTS"])
            c.update(mod.CONTRACTS)
        except ImportError:
            pass
    return c


class _Budget(BaseException):
    pass


def _task_budget(timeout_ms):
    """wall-clock budget of one task (all its paths): a tree on which a task forks into hundreds of slow paths ends that task
    undecided instead of holding the check for hours (never reached on the unchanged tree: the slowest task takes < 200 s)"""
    env = os.environ.get("VERIF_TASK_BUDGET")
    return int(env) if env else (900 if timeout_ms <= 60000 and os.environ.get("VERIF_TIER_EFFECTIVE", "quick") != "thorough" else 3000)


def _worker(job):
    name, src, timeout_ms = job[:3]
    sys.setrecursionlimit(10000)
    t0 = time.time()
    import signal

    def _alarm(signum, frame):
        raise _Budget()
    try:
        signal.signal(signal.SIGALRM, _alarm)
        signal.alarm(_task_budget(timeout_ms))
    except (ValueError, OSError):
        pass
    try:
        return _worker_body(job, t0)
    except _Budget:
        return dict(task=name, qualname="?", kind="?", results=[], undecided=[dict(task=name, reason=f"OutOfReach: the task exceeded its time budget of {_task_budget(timeout_ms)} s (too many slow paths on this tree)")],
                    stats={}, source=None, crash=None, wall=time.time() - t0)
    finally:
        try:
            signal.alarm(0)
        except (ValueError, OSError):
            pass


def _worker_body(job, t0):
    name, src, timeout_ms = job[:3]
    try:
        from pyvc import verify
        tasks = {t.name: t for t in _all_tasks()}
        t = tasks[name]
        hooks = {}
        try:
            from pyvc import contracts_container
            hooks = getattr(contracts_container, "LOOP_HOOKS", {})
        except ImportError:
            pass
        verify.PORTFOLIO = (7, 23) if job[2] >= 60000 and len(job) > 3 and job[3] == "retry" else ()
        res, und, st = verify.explore(t, src, _contracts(), hooks, timeout_ms=timeout_ms)
        sh = verify.source_hash(src, t.qualname.split("+")[0]) if not t.qualname.startswith("spec:") else None
        return dict(task=name, qualname=t.qualname, kind=t.kind, results=res, undecided=und, stats=st, source=sh, crash=None, wall=time.time() - t0)
    except _Budget:
        raise
    except Exception as e:
        if isinstance(e, RecursionError) or "RecursionError" in str(e) or "recursion" in str(e).lower():
            # terms too deep for the Python bindings of the solver: a limit of the tool on this tree, not a verdict and not a crash
            return dict(task=name, qualname=getattr(locals().get("t"), "qualname", "?"), kind=getattr(locals().get("t"), "kind", "?"), results=[],
                        undecided=[dict(task=name, reason="OutOfReach: recursion limit (terms too deep for the solver bindings)")], stats={}, source=None, crash=None,
                        wall=time.time() - t0)
        return dict(task=name, qualname="?", kind="?", results=[], undecided=[], stats={}, source=None,
                    crash=f"{type(e).__name__}: {e}\n{traceback.format_exc(limit=8)}", wall=time.time() - t0)


def run_tasks(names, src, tier):
    timeout = 10000 if tier == "quick" else 60000
    jobs = [(n, src, timeout) for n in names]
    ctxm = mp.get_context("fork")
    cap = int(os.environ.get("VERIF_WORKERS", "16") or 16)          # several checks side by side (selftest lanes) share the cores
    with ctxm.Pool(max(1, min(16, cap, len(jobs)))) as pool:
        return pool.map(_worker, jobs, chunksize=1)


# --------------------------------------------------------------------------------------------- property table
def select(tasks, prefixes=(), props=None, names=()):
    out = []
    for t in tasks:
        if t.name in names or any(t.name.startswith(p) for p in prefixes) or (props and any(p in t.props for p in props) and t.kind == "prim"):
            out.append(t.name)
    return out


TRACKS = ("MarkerTrack", "EMGTrack", "ForceTorqueTrack", "PlatformData")


def _also_covers(task_name):
    """functions a task proves besides the one it is named after: a round-trip task RT.<T> proves the (write, build) pair
    against the opaque-segment contract the enclosing block uses (build consumes what write emitted and gives the value
    back); SW.<T> proves nBytes = what write emits"""
    out = set()
    if "pad/bpad/skip/nBytes" in task_name:
        out.update("basictdf.tdfTypes.TdfType." + a for a in ("pad", "bpad", "skip", "nBytes"))
    from .symlayout import SPECS
    from .tasks_codec import WRITE_ATTR, BUILD_ATTR
    parts = task_name.split(".")
    if len(parts) >= 2 and parts[0] in ("RT", "SW", "W", "B"):
        nm = parts[1].split("[")[0]
        if nm in SPECS:
            cls = SPECS[nm].cls
            w, b = cls + "." + WRITE_ATTR.get(nm, "_write"), cls + "." + BUILD_ATTR.get(nm, "_build")
            out.update({"RT": (w, b), "SW": (w, cls + ".nBytes"), "W": (w,), "B": (b,)}[parts[0]])
    return out


def property_config(pid, tasks):
    """decisive = obligations that decide the property; chain = obligations of a sufficient (layout-based) argument whose
    failure only degrades a clause to 'bounded'; harness = bounded suites on the real code"""
    P = {}
    P["C01"] = dict(decisive=select(tasks, ("RT.",), props=["C01"]), chain=select(tasks, ("W.", "R3.")),
                    harness=dict(checks=["roundtrip", "history"], kinds=["RT.write", "RT.decode", "RT.content", "RT.reencode"]))
    P["C02"] = dict(decisive=select(tasks, ("SW.", "RT."), props=["C02"]), chain=[],
                    harness=dict(checks=["roundtrip", "history", "size_nonfinite", "size_overlong"], kinds=["RT.size", "RT.consumed"], capture=["CAP.consumed", "CAP.size", "CAP.decode"]))
    P["C05"] = dict(decisive=select(tasks, ("SEG.",) + tuple(f"RT.{t}" for t in TRACKS) + tuple(f"W.{t}" for t in TRACKS) + tuple(f"B.{t}" for t in TRACKS)
                                    + tuple(f"SW.{t}" for t in TRACKS)),
                    chain=[], harness=dict(checks=["gaps", "gaps_block", "history", "roundtrip"], kinds=["C05", "RT.size"], layouts=list(TRACKS)))
    P["C06"] = dict(decisive=select(tasks, ("W.", "B."), props=["C06"]), chain=[],
                    harness=dict(checks=["write", "build", "history"], kinds=["W", "B"], modes=("zero",), capture=["CAP.layout", "CAP.decode"]))
    P["C12"] = dict(decisive=select(tasks, ("B.", "R3.", "C13.BTSString.read", "C13.BTSString.bread") + tuple(f"TDF.tdfTypes.{k}.pad" for k in ("i32",))),
                    chain=[], harness=dict(checks=["build"], kinds=["B", "R3", "S"], capture=["CAP.dontcare", "CAP.reencode", "CAP.decode"],
                                           extra=[("harness.container_checks2", "run_c12_entries")]))
    P["C13"] = dict(decisive=select(tasks, ("C13.",)), chain=[], harness=dict(btsstring=True))
    # The codec proofs replace some callees by contracts (DESIGN 2, modularity): `_segments`, BTSDate, and the add-one-item
    # methods the decoders call.  The tasks that verify those contracts belong to the proof -- but only the clauses the
    # decoders rely on (a valid item / an explicit free channel is accepted and appended, everything else is kept), not the
    # clauses that only C15 / C16 state (refusals, automatic channels, uniqueness).
    APPEND = ["length_grows_by_one", "new_item_is_last", "old_items_kept", "refuses_only_invalid_items", "block_frame_count_unchanged"]
    PAIR = ["refused_only_if_explicit_channel_taken", "channel_list_is_a_list", "channel_list_length", "item_list_length", "surviving_channels_unchanged",
            "new_channel_at_its_position", "surviving_items_keep_their_channel_position"]
    callee = {n: None for n in select(tasks, ("SEG.", "DATE."))}
    callee.update({n: APPEND for n in select(tasks, ("C16.Data3D.add_track", "C16.ForceTorque3D.add_track", "C16.EMG.addSignal")) if "[" not in n})
    callee.update({n: PAIR for n in select(tasks, ("C15.EMG.add[explicit]", "C15.PlatformsCalibration.add[explicit]", "C15.PlatformsData.add[explicit]"))})
    # the primitive codecs the decoders / track codecs call through contracts: their own tasks close the chain
    tdf_all = select(tasks, ("TDF.",))
    bts_io = select(tasks, ("C13.BTSString.",))
    P["C12"]["decisive"] += [n for n in tdf_all if "bread" in n or ".read(" in n or "skip" in n]
    P["C05"]["decisive"] += tdf_all + bts_io
    P["C01"]["decisive"] += [n for n in tdf_all + bts_io if n not in P["C01"]["decisive"]]
    P["C02"]["decisive"] += [n for n in tdf_all + bts_io if n not in P["C02"]["decisive"]]
    for pid_ in ("C01", "C02", "C06", "C12"):
        P[pid_]["decisive"] = list(dict.fromkeys(P[pid_]["decisive"] + list(callee)))
        P[pid_]["only"] = {n: v for n, v in callee.items() if v is not None}
    for modname in ("tasks_obj", "tasks_container", "tasks_access"):
        try:
            mod = __import__("pyvc." + modname, fromlist=["property_config"])
            P.update(mod.property_config(tasks, select))
        except ImportError:
            pass
    cfg = P.get(pid)
    if cfg is not None and pid in LIBCHECK_FOR:
        cfg.setdefault("harness", {}).setdefault("extra", []).append(("harness.libcheck", "run"))
    return cfg


LIBCHECK_FOR = {"C05", "C06", "C13", "C17"}      # checks that also validate the assumed library contracts on every run


ASSUMPTIONS = [
    "Python int is mathematical; machine width exists only at the numpy boundary and is covered by range clauses of valid_T",
    "floating-point samples are opaque words at their on-disk width (the library never computes on them); NaN-ness is an uninterpreted predicate preserved by width conversion",
    "numpy / struct / io / datetime behave as the library contracts in pyvc/npmodel.py state (validated differentially by harness/libcheck.py, bounded)",
    "loop summarisation rules FOLD / SCATTER / SEARCH (DESIGN.md 2.6) are sound (three-line inductions, not mechanised)",
    "maximal-run decomposition of a presence mask is unique, hence _segments is a function of the data (validated exhaustively for n <= 12)",
    "+-inf in the leading component of a track is outside valid_T (masked_invalid treats it as missing); header floats are representable at on-disk width",
    "single thread, no re-entrancy; MemoryError / OSError from the device are not modelled",
    "how an array is stored (byte order, strides, Fortran order, a wider float holding float32 values) is not modelled: arrays are their values (the bounded suites generate those storage variants)",
    "state a class keeps besides the attributes of its layout view (caches, memo tables) is outside the specification-built instances: code reading it is out of reach, the history clauses of the bounded suites judge it",
    "Data2D: camera channels below 2**15 (written through the signed, read through the unsigned 16-bit codec); a cell is None or holds 1..65535 points",
    "counting: the number of non-unused table slots is the live count under the invariant; on an arbitrary table (CT.hole.*) it satisfies 0 <= c <= N and the pigeonhole fact (first c slots live => no later slot live) -- assumed, cardinality",
    "container proofs start from ordered files (live entries first, unused offsets at or after the end of live data); block dates and format codes of the NEW block are unconstrained (an un-encodable entry must be refused before anything is touched)",
    "importing a module from outside the repository that has no contract here (time, logging, ...) has no effect on the repository's state; anything USED from it is out of reach (undecided) at the point of use",
    "the VC generator itself (pyvc) -- mitigated by canaries, cover checks and the seeded-break catalogue",
]
TRUSTED = ["z3 4.x (z3-solver 5.1 wheel)", "cvc5 1.0.3 (fallback for z3 unknowns)", "pyvc symbolic executor + stream normaliser",
           "library contracts for numpy/struct/io/datetime (pyvc/npmodel.py, loader.py)", "layout tables spec/layouts.py (anchored on the BTS capture)"]


# --------------------------------------------------------------------------------------------- known findings
def load_known():
    p = os.path.join(VERIF, "known_findings.json")
    try:
        return json.load(open(p)).get("findings", [])
    except Exception:
        return []


def known_match(pid, text):
    for f in load_known():
        if f.get("property") == pid and f.get("match") and f["match"] in text:
            return f
    return None


# --------------------------------------------------------------------------------------------- main
def write_replay(pid, name, payload):
    d = os.path.join(VERIF, "replays", pid)
    os.makedirs(d, exist_ok=True)
    h = hashlib.sha256(json.dumps(payload, sort_keys=True, default=str).encode()).hexdigest()[:10]
    safe = "".join(c if c.isalnum() or c in "._-" else "_" for c in name)[:80]
    path = os.path.join(d, f"{safe}-{h}.json")
    payload["rerun"] = f"./check {pid} --replay {os.path.relpath(path, VERIF)}"
    json.dump(payload, open(path, "w"), indent=1, default=str)
    return os.path.relpath(path, VERIF)


def _limit_memory():
    """the code under test decodes hostile bytes in some suites: an absurd count must end in MemoryError there (a failure of
    that case), not in the kernel killing the check"""
    try:
        import resource
        lim = 6 << 30
        soft, hard = resource.getrlimit(resource.RLIMIT_AS)
        if soft == resource.RLIM_INFINITY or soft > lim:
            resource.setrlimit(resource.RLIMIT_AS, (lim, hard))
    except Exception:
        pass


def run_harness(pid, cfg, seed, tier, src, layouts=None, deep=False):
    """bounded suites on the real code; returns (standins, failures)"""
    sys.path.insert(0, src)
    import warnings
    warnings.simplefilter("ignore")
    _limit_memory()
    from harness import suites, capture
    h = cfg.get("harness", {})
    standins, fails = [], []
    t = "thorough" if (deep or tier == "thorough") else "quick"
    if h.get("checks"):
        st, fl = suites.run_codec_suite(seed, t, h["checks"], layouts=layouts or h.get("layouts"), kinds=h.get("kinds"))
        standins.append(dict(what=f"executable contracts {h['checks']} on generated valid objects (real code)", bound=f"{st['cases']} objects: every block type x small shapes, "
                             f"all presence masks up to n={5 if t == 'quick' else 9} frames", cases=st["cases"], wall_s=st["wall"], label="bounded"))
        fails += fl
    if h.get("btsstring"):
        st, fl = suites.run_btsstring_suite(seed, t)
        standins.append(dict(what="BTSString.write/read on enumerated strings x widths (real code)", bound=f"{st['cases']} (width, string) pairs", cases=st["cases"], label="bounded"))
        fails += fl
    if h.get("capture"):
        st, fl = capture.check_capture(os.path.dirname(src), seed, nscramble=2 if t == "quick" else 8)
        fl = [f for f in fl if any(f["kind"].startswith(k) for k in h["capture"])]
        standins.append(dict(what="BTS capture clause (independent struct parser + layout tables)", bound=f"one concrete file, {st.get('blocks')} blocks", cases=st.get("blocks", 0),
                             bytes_accounted=st.get("bytes_accounted"), label="concrete instance"))
        fails += fl
    for extra in h.get("extra", []):
        mod = __import__(extra[0], fromlist=[extra[1]])
        # thorough: the same suite under several seeds (other generated objects, other histories)
        for sd in (range(seed, seed + 5) if t == "thorough" else (seed,)):
            st, fl = getattr(mod, extra[1])(sd, t, os.path.dirname(src))
            if sd != seed:
                st = dict(st, what=st.get("what", "") + f" (seed {sd})")
            standins.append(st)
            fails += fl
            if fl:
                break
    return standins, fails


def replay_file(pid, path, src):
    sys.path.insert(0, src)
    import warnings
    warnings.simplefilter("ignore")
    _limit_memory()
    data = json.load(open(os.path.join(VERIF, path) if not os.path.isabs(path) else path))
    rec = data.get("failing_input", {}).get("recipe")
    if not rec:
        print(f"replay file carries no concrete input (obligation {data.get('obligation')}): solver output follows")
        print(json.dumps(data.get("solver"), indent=1)[:4000])
        return 1
    from harness import suites, codec_checks, capture
    if rec["kind"] == "btsstring":
        fl = codec_checks.check_btsstring(rec["size"], rec["string"])
    elif rec["kind"] == "capture":
        fl = capture.check_capture(os.path.dirname(src), 0)[1]
    elif rec["kind"] in ("block", "item", "track", "trackblock", "large"):
        fl = suites.run_recipe(rec, data["failing_input"].get("checks", ["write", "build", "roundtrip", "gaps", "gaps_block", "history", "size_nonfinite", "size_overlong"]))
    else:
        mod = __import__(rec["module"], fromlist=["replay"])
        fl = mod.replay(rec, os.path.dirname(src))
    for f in fl:
        print("REPRODUCED:", f["kind"], f["layout"], f["message"])
    if not fl:
        print("not reproduced on the current tree")
    return 1 if fl else 0


def main(argv=None):
    ap = argparse.ArgumentParser()
    ap.add_argument("pid")
    ap.add_argument("--tier", default=os.environ.get("VERIF_TIER", "quick"))
    ap.add_argument("--replay")
    ap.add_argument("--src")
    a = ap.parse_args(argv)
    pid, tier = a.pid, a.tier if a.tier in ("quick", "thorough") else "quick"
    os.environ["VERIF_TIER_EFFECTIVE"] = tier            # read by the workers (task budget)
    seed = int(os.environ.get("VERIF_SEED", "0") or 0)
    src = _src_root(a.src)
    if a.replay:
        return replay_file(pid, a.replay, src)
    t0 = time.time()
    sys.setrecursionlimit(10000)
    tasks = _all_tasks()
    cfg = property_config(pid, tasks)
    if cfg is None:
        print(f"property {pid} has no check (see MANIFEST.json not_applicable)")
        return 2
    canaries = [t.name for t in tasks if t.kind == "canary" and (pid in t.props or not t.props)]
    names = list(dict.fromkeys(cfg["decisive"] + cfg.get("chain", []) + canaries))
    if not cfg["decisive"]:
        print("CHECKER-ERROR: no obligations generated")
        return 3
    out = run_tasks(names, src, tier)
    # verdicts must not depend on machine load: tasks with a solver 'unknown' are re-run with few processes and a larger budget
    shaky = [o["task"] for o in out if any(r["result"] == "unknown" for r in o["results"]) and not o["crash"] and o["task"] not in canaries]
    n_open = sum(1 for o in out for r in o["results"] if r["result"] == "unknown" and o["task"] not in canaries)
    if shaky and len(shaky) <= 6 and n_open <= 8:          # many open obligations = a changed tree: the bounded suites decide, no point in retrying
        jobs = [(n, src, 60000 if tier == "quick" else 180000, "retry") for n in shaky]
        with mp.get_context("fork").Pool(min(4, len(jobs))) as pool:
            redo = {o["task"]: o for o in pool.map(_worker, jobs, chunksize=1)}
        out = [redo.get(o["task"], o) if o["task"] in redo and not redo[o["task"]]["crash"] else o for o in out]
    by = {o["task"]: o for o in out}
    crashes = [o for o in out if o["crash"]]
    for o in crashes:
        print(f"CHECKER-ERROR task={o['task']}: {o['crash'].splitlines()[0]}")
    # canaries must be refuted
    bad_canaries = []
    for c in canaries:
        rs = by[c]["results"]
        if (rs and all(r["result"] == "proved" for r in rs)) or (not rs and not by[c]["undecided"] and not by[c]["crash"]):
            bad_canaries.append(c)          # a false contract went through (or produced nothing): the engine proves too much
        # a canary left undecided because the tree is out of the engine's reach says nothing about the engine
    obligs, undecided, failing = [], [], []
    only = cfg.get("only", {})        # callee-contract tasks of which only the clauses the property relies on count
    for n in cfg["decisive"]:
        o = by[n]
        for r in o["results"]:
            if n in only and not any(k in r["name"] for k in only[n]):
                continue
            obligs.append(r)
            if r["result"] != "proved":
                failing.append(r)
        for u in o["undecided"]:
            undecided.append(u)
    chain_fail = []
    for n in cfg.get("chain", []):
        o = by[n]
        for r in o["results"]:
            if r["result"] != "proved":
                chain_fail.append(r)
        chain_fail += [dict(task=n, name=n, result="undecided", reason=u["reason"]) for u in o["undecided"]]
    # vacuity: every decisive task must have produced at least one obligation or an undecided note
    empty = [n for n in cfg["decisive"] if not by[n]["results"] and not by[n]["undecided"] and not by[n]["crash"]]
    # bounded suites on the real code (always: they are also the replay of refuted obligations)
    layouts_hit = sorted({_layout_of_task(r["task"]) for r in failing} | {_layout_of_task(u["task"]) for u in undecided} - {None})
    suite_incomplete = None
    try:
        standins, hfails = run_harness(pid, cfg, seed, tier, src)
        if (failing or undecided) and not hfails:
            s2, hfails = run_harness(pid, cfg, seed, tier, src, layouts=layouts_hit or None, deep=True)
            standins += s2
        harness_ok = True
    except Exception as e:
        standins, hfails, harness_ok = [], [], False
        tb = traceback.extract_tb(e.__traceback__)
        inner = tb[-1] if tb else None
        if inner is not None and os.path.realpath(inner.filename).startswith(os.path.realpath(src) + os.sep):
            # the tree under check raised on a request the suites take to be valid and no clause of this property is about
            # that request: the suites could not finish -- neither a violation of THIS property nor a fault of the checker
            suite_incomplete = f"{type(e).__name__}: {e} raised at {os.path.relpath(inner.filename, src)}:{inner.lineno}"
            harness_ok = True
            print(f"UNDECIDED bounded suites could not complete: {suite_incomplete} (inside the tree under check, on a request the suites take to be valid)")
        else:
            print(f"CHECKER-ERROR bounded suites crashed: {type(e).__name__}: {e}")
            traceback.print_exc(limit=6)
    if os.environ.get("VERIF_DEBUG"):
        import basictdf as _b
        print("DEBUG harness library:", _b.__file__, "failures:", len(hfails), [f["kind"] for f in hfails[:5]])
    lib_fails = [f for f in hfails if f["kind"].startswith("libcheck")]
    hfails = [f for f in hfails if not f["kind"].startswith("libcheck")]
    for f in lib_fails[:5]:
        print(f"CHECKER-ERROR assumed library contract does not hold in this sandbox: {f['message']}")
    if lib_fails:
        harness_ok = False
    # ---- verdict
    violations, known_hits = [], []
    for f in hfails[:5]:
        text = f"{f['kind']} {f['layout']} {f['message']}"
        k = known_match(pid, text)
        if k:
            known_hits.append((k, text))
            continue
        related = next((r for r in failing if _layout_of_task(r["task"]) == f["layout"]), None)
        path = write_replay(pid, (related["name"] if related else f"runtime-contract.{f['kind']}.{f['layout']}"), dict(
            property=pid, obligation=related["name"] if related else None, function=by[related["task"]]["qualname"] if related else f["layout"],
            source=by[related["task"]]["source"] if related else None, solver=dict(result=related["result"], backend=related["backend"], model=related.get("model")) if related else None,
            failing_input=dict(recipe=f["recipe"], describe=f["repro"], checks=[f.get("check")] if f.get("check") else None),
            observed=f["message"], expected="the executable contract of DESIGN.md 6 holds on the real code"))
        violations.append((f"{text}", path, False))
    if not violations:
        for r in failing:
            if r["result"] == "refuted":
                k = known_match(pid, r["name"])
                if k:
                    known_hits.append((k, r["name"]))
                    continue
                path = write_replay(pid, r["name"], dict(property=pid, obligation=r["name"], function=by[r["task"]]["qualname"], source=by[r["task"]]["source"],
                                                         solver=dict(result=r["result"], backend=r["backend"], model=r.get("model"), path=r.get("trace")),
                                                         failing_input=None, observed="obligation refuted by the solver; the bounded suites found no concrete failing input",
                                                         expected="obligation valid (it is discharged on the unchanged tree)"))
                violations.append((f"obligation {r['name']} refuted", path, True))
                break
    for k, text in known_hits:
        print(f"KNOWN-FINDING: property={pid} {k.get('what', text)}")
    for r in failing:
        if r["result"] != "refuted":
            print(f"UNDECIDED obligation={r['name']} reason=solver {r['result']} (bounded stand-in {'passed' if not hfails else 'failed'})")
    for u in undecided:
        print(f"UNDECIDED task={u['task']} reason={u['reason'][:200]} (bounded stand-in {'passed' if not hfails else 'failed'})")
    for r in chain_fail[:10]:
        print(f"NOTE chain obligation {r.get('name')} not discharged ({r.get('result')}): the clause it supports is covered by the bounded suite only")
    discharged = sum(1 for r in obligs if r["result"] == "proved")
    by_backend = {}
    for r in obligs:
        if r["result"] == "proved":
            by_backend[r["backend"]] = by_backend.get(r["backend"], 0) + 1
    funcs = []
    seen = set()
    for n in cfg["decisive"]:
        o = by[n]
        key = (o["qualname"], json.dumps(o["source"], sort_keys=True))
        if key not in seen:
            seen.add(key)
            funcs.append(dict(function=o["qualname"], source=o["source"]))
    # modular chain: every contract a decisive task relied on at a call site, and whether a task of THIS check proves that
    # function's body against it; the rest is listed as assumed (evidence: assumed_callee_contracts)
    in_check = list(dict.fromkeys(cfg["decisive"] + cfg.get("chain", [])))
    proved_here = {by[n]["qualname"] for n in in_check}
    for n in in_check:
        proved_here.update(_also_covers(n))
    used_contracts = sorted({q for n in cfg["decisive"] for q in by[n]["stats"].get("contracts_used", [])})
    assumed_callees = [q for q in used_contracts if q not in proved_here]
    samples = [dict(obligation=r["name"], task=r["task"], verdict=r["result"], backend=r["backend"], solver_s=r["time"]) for r in obligs[:3] + failing[:3]]
    evidence = dict(
        property_id=pid, tier=tier, seed=seed, level="proof",
        coverage=dict(obligations=len(obligs), discharged=discharged,
                      checker_cmd=f"./check {pid} --tier {tier}", trusted_base=TRUSTED,
                      functions_under_contract=funcs, tasks=len(cfg["decisive"]), paths=sum(by[n]["stats"].get("paths", 0) for n in cfg["decisive"]),
                      by_backend=by_backend, solver_time_s=round(sum(r["time"] for r in obligs), 2),
                      undecided=[dict(task=u["task"], reason=u["reason"][:300]) for u in undecided] + [dict(obligation=r["name"], reason="solver " + r["result"]) for r in failing if r["result"] != "refuted"],
                      chain_obligations=dict(total=sum(len(by[n]["results"]) for n in cfg.get("chain", [])), not_discharged=len(chain_fail)),
                      bounded_standins=standins, canaries_refuted=len(canaries) - len(bad_canaries), canaries=len(canaries),
                      known_findings_hit=[k.get("id") for k, _ in known_hits], samples=samples,
                      callee_contracts_used=used_contracts, assumed_callee_contracts=assumed_callees,
                      extraction_drops="comments, docstrings, type annotations, f-string text (parts are still evaluated); nothing else: unsupported syntax makes the function out of reach"),
        assumptions=ASSUMPTIONS, wall_s=round(time.time() - t0, 2), violations=len(violations))
    # evidence/ describes /repo's own tree; a run against another tree (--src: seeded and harmless changes) writes to .scratch/
    ev_dir = os.path.join(VERIF, "evidence") if os.path.realpath(src) == os.path.realpath("/repo/src") else os.path.join(VERIF, ".scratch", "evidence")
    if assumed_callees:
        print(f"NOTE callee contracts relied on without a task of this check proving the callee's body: {assumed_callees} (listed in the evidence as assumed)")
    os.makedirs(ev_dir, exist_ok=True)
    json.dump(evidence, open(os.path.join(ev_dir, f"{pid}.json"), "w"), indent=1)
    print(f"{pid}: {discharged}/{len(obligs)} obligations discharged over {len(cfg['decisive'])} functions/tasks ({evidence['coverage']['paths']} paths), "
          f"{len(undecided)} undecided, bounded cases {sum(s.get('cases', 0) or 0 for s in standins)}, wall {evidence['wall_s']}s")
    if crashes or bad_canaries or empty or not harness_ok:
        if bad_canaries:
            print(f"CHECKER-ERROR canaries not refuted: {bad_canaries}")
        if empty:
            print(f"CHECKER-ERROR tasks generated no obligations: {empty}")
        if not violations:
            return 3
    seen_paths = set()
    for text, path, nofail in violations:
        if path in seen_paths or len(seen_paths) >= 3:
            continue
        seen_paths.add(path)
        print(f"VIOLATION property={pid} replay={path}" + (" no-failing-input-found" if nofail else "") + f"   # {text[:300]}")
    if violations:
        return 1
    if suite_incomplete:
        return 2
    return 0


def _layout_of_task(name):
    parts = name.split(".")
    if len(parts) >= 2 and parts[0] in ("W", "S", "B", "R3", "RT", "SW", "SEG"):
        return parts[1].split("[")[0]
    return None


if __name__ == "__main__":
    sys.exit(main())
