"""Container engine, part 2: access modes (C08), context protocol (C08 C10 C17), create / copy / open (C17 C06), file
equality and size (C14 C10)."""
import z3

from . import npmodel
from .container import (INT_FIELDS, FileState, VBlockAbs, VDecoded, VHandle, c_block_build, same_file_goals, slot_pos, _blocktype)
from .core import (And, B, I, If, Implies, Not, Or, OutOfReach, PyRaise, Seq, VBuiltin, VDate, VEnum, VList, VObj, VProperty, VStr, conc, eq, is_int, rng, zbool, zint)
from .interp import EXC, ClassModel, FuncModel
from .npmodel import NOATTR, VBytes, VBytesIO
from .stream import ALit, APad, AText, slen, stream_eq_goals
from .tasks_container import (GENERATED, GETTERS, HAS, SETTERS, State, VClassOfType, VPath, _tdf_method, install_contracts, sym_comment)
from .tasks_prims import _outcome, sym_text
from .verify import Task


def file_untouched(interp, tag, S, kind="C08"):
    ctx = interp.ctx
    wrote = [w for w in interp.writes if w[0] is S.F]
    ctx.oblige(f"{tag}.no_write_reaches_the_file({len(wrote)} writes)", len(wrote) == 0, kind=kind)
    for n, g in same_file_goals(ctx, tag, S.F, S.F0):
        ctx.oblige(n, g, kind=kind)


def handles_closed(interp, tag, S, before):
    ctx = interp.ctx
    opened = getattr(interp, "opened", [])[before:]
    ctx.oblige(f"{tag}.every_handle_opened_implicitly_is_closed_again({len(opened)} opened)", all(h.closed for h in opened), kind="C08")


MODES = {
    # name: (inside, mode, handler: 'closed' / 'none' / 'open', entries loaded)
    "no_context": (False, "rb", "none", False),
    "no_context_after_an_earlier_context": (False, "rb", "closed", True),
    "allow_write_without_context": (False, "r+b", "none", False),
    "allow_write_without_context_after_an_earlier_context": (False, "r+b", "closed", True),
    "read_only_context": (True, "rb", "open", True),
}


def _mk_state(interp, modename):
    inside, mode, h, loaded = MODES[modename]
    S = State(interp, mode=mode, inside=inside, handle=(h != "none"), entries_loaded=loaded)
    if h == "closed":
        S.h.closed = True
    S.tdf.fields["SIGNATURE_OK"] = True
    return S


def access_tasks():
    out = []
    mutators = {"add_block": lambda interp, S: [VBlockAbs(interp), sym_comment(interp.ctx)],
                "remove_block": lambda interp, S: [VEnum(_blocktype(interp), z3.Const("rm_type", I))],
                "replace_block": lambda interp, S: [VBlockAbs(interp)]}
    for mname, mk in mutators.items():
        for modename in MODES:
            def run(interp, mname=mname, mk=mk, modename=modename):
                """a mutation issued outside a write-enabled context raises and leaves the file untouched"""
                ctx = interp.ctx
                install_contracts(interp)
                interp.contracts["basictdf.basictdf._get_block_class"] = lambda interp, fn, a, k: VClassOfType(a[0])      # a mutator may read blocks
                S = _mk_state(interp, modename)
                if mname == "remove_block":
                    ctx.assume(And(z3.Const("rm_type", I) >= 0, z3.Const("rm_type", I) <= 16))
                f = _tdf_method(interp, S, mname)
                o0 = len(getattr(interp, "opened", []))
                oc = _outcome(interp, lambda: interp.call(f, [S.tdf] + mk(interp, S), {}))
                tag = f"C08.{mname}[{modename}]"
                ctx.oblige(f"{tag}.raises", oc[0] == "raise", kind="C08")
                file_untouched(interp, tag, S)
                handles_closed(interp, tag, S, o0)
            out.append(Task(f"C08.{mname}[{modename}]", f"basictdf.basictdf.Tdf.{mname}", ["C08"], run, kind="ct"))
    for sname, ty in SETTERS.items():
        for modename in MODES:
            def run(interp, sname=sname, ty=ty, modename=modename):
                ctx = interp.ctx
                install_contracts(interp)
                interp.contracts["basictdf.basictdf._get_block_class"] = lambda interp, fn, a, k: VClassOfType(a[0])
                S = _mk_state(interp, modename)
                prop, _ = S.cls.lookup(sname)
                o0 = len(getattr(interp, "opened", []))
                oc = _outcome(interp, lambda: interp.call(prop.fset, [S.tdf, VBlockAbs(interp, type_term=z3.IntVal(ty))], {}))
                tag = f"C08.{sname}=[{modename}]"
                ctx.oblige(f"{tag}.raises", oc[0] == "raise", kind="C08")
                file_untouched(interp, tag, S)
                handles_closed(interp, tag, S, o0)
            out.append(Task(f"C08.{sname}=[{modename}]", f"basictdf.basictdf.Tdf.{sname}.setter", ["C08"], run, kind="ct"))

    # ---- readers never modify, in any mode, and close what they open
    RMODES = dict(MODES, write_context=(True, "r+b", "open", True))

    def reader_task(rname, call, qual):
        for modename in RMODES:
            def run(interp, modename=modename):
                ctx = interp.ctx
                install_contracts(interp)
                interp.contracts["basictdf.basictdf._get_block_class"] = lambda interp, fn, a, k: VClassOfType(a[0])
                inside, mode, h, loaded = RMODES[modename]
                S = State(interp, mode=mode, inside=inside, handle=(h != "none"), entries_loaded=loaded)
                if h == "closed":
                    S.h.closed = True
                o0 = len(getattr(interp, "opened", []))
                oc = _outcome(interp, lambda: call(interp, S))
                tag = f"C08.reader.{rname}[{modename}]"
                file_untouched(interp, tag, S)
                handles_closed(interp, tag, S, o0)
                if not inside:
                    ctx.oblige(f"{tag}.object_is_outside_a_context_again", S.tdf.fields.get("_inside_context") is False, kind="C08")
                    if oc[0] == "return" and len(getattr(interp, "opened", [])) > o0:
                        # the implicit context was a context: a pending allow_write() does not survive it
                        ctx.oblige(f"{tag}.implicit_context_uses_up_allow_write", S.tdf.fields.get("_mode") == "rb", kind="C08")
            out.append(Task(f"C08.reader.{rname}[{modename}]", qual, ["C08"], run, kind="ct"))

    def prop_get(name):
        def call(interp, S):
            p, _ = S.cls.lookup(name)
            return interp.call(p.fget, [S.tdf], {})
        return call
    for name in list(HAS) + list(GETTERS) + ["nBytes"]:
        reader_task(name, prop_get(name), f"basictdf.basictdf.Tdf.{name}")
    reader_task("get_block", lambda interp, S: interp.call(_tdf_method(interp, S, "get_block"), [S.tdf, VEnum(_blocktype(interp), z3.Const("rd_type", I))], {}), "basictdf.basictdf.Tdf.get_block")
    reader_task("getitem", lambda interp, S: interp.call(_tdf_method(interp, S, "__getitem__"), [S.tdf, z3.Const("rd_index", I)], {}), "basictdf.basictdf.Tdf.__getitem__")
    reader_task("repr", lambda interp, S: interp.call(_tdf_method(interp, S, "__repr__"), [S.tdf], {}), "basictdf.basictdf.Tdf.__repr__")
    reader_task("blocks", prop_get("blocks"), "basictdf.basictdf.Tdf.blocks")
    reader_task("len", lambda interp, S: interp.call(_tdf_method(interp, S, "__len__"), [S.tdf], {}), "basictdf.basictdf.Tdf.__len__")
    reader_task("eq_self", lambda interp, S: interp.call(_tdf_method(interp, S, "__eq__"), [S.tdf, S.tdf], {}), "basictdf.basictdf.Tdf.__eq__")
    reader_task("eq_other_kind", lambda interp, S: interp.call(_tdf_method(interp, S, "__eq__"), [S.tdf, "not a Tdf"], {}), "basictdf.basictdf.Tdf.__eq__")

    # ---- the context protocol
    def t_allow_write(interp):
        ctx = interp.ctx
        install_contracts(interp)
        S = _mk_state(interp, "no_context")
        f = _tdf_method(interp, S, "allow_write")
        oc = _outcome(interp, lambda: interp.call(f, [S.tdf], {}))
        ctx.oblige("C08.allow_write.returns_the_object_in_write_mode", oc[0] == "return" and oc[1] is S.tdf and S.tdf.fields["_mode"] == "r+b" and S.tdf.fields["_inside_context"] is False, kind="C08")
        file_untouched(interp, "C08.allow_write", S)
    out.append(Task("C08.allow_write", "basictdf.basictdf.Tdf.allow_write", ["C08"], t_allow_write, kind="ct"))

    for mode in ("rb", "r+b"):
        def t_enter(interp, mode=mode):
            """__enter__: opens with the current mode, parses the table: entries == disk slots; the file is not modified"""
            ctx = interp.ctx
            install_contracts(interp)
            S = State(interp, mode=mode, inside=False, handle=False, entries_loaded=False)
            f = _tdf_method(interp, S, "__enter__")
            oc = _outcome(interp, lambda: interp.call(f, [S.tdf], {}))
            tag = f"C08.__enter__[{mode}]"
            ctx.oblige(f"{tag}.succeeds_on_a_well_formed_file", oc[0] == "return" and oc[1] is S.tdf, kind="C08")
            if oc[0] != "return":
                return
            t = S.tdf
            h = t.fields.get("handler")
            ctx.oblige(f"{tag}.inside_context_with_an_open_handle_of_the_requested_mode", t.fields["_inside_context"] is True and isinstance(h, VHandle) and not h.closed and h.writable == ("+" in mode) and t.fields["_mode"] == mode, kind="C08")
            file_untouched(interp, tag, S)
            ents = t.fields.get("entries")
            ok = isinstance(ents, VList)
            ctx.oblige(f"C10.__enter__[{mode}].table_loaded", ok and eq(t.fields.get("nEntries"), S.F.N) is not False, kind="C10")
            if ok:
                ctx.oblige(f"C10.__enter__[{mode}].one_entry_per_slot", eq(ents.length, S.F.N), kind="C10")
                i = ctx.fresh_const("slot")
                ctx.solver.push()
                ctx.solver.add(zbool(rng(0, i, S.F.N)))
                try:
                    e = ents.elem(i)
                finally:
                    ctx.solver.pop()
                q = slot_pos(i)
                D = S.F0.D
                g = lambda n: interp.getattr(e, n)
                same = And(eq(g("type").val, D.ints["type"](q)), eq(g("format"), D.ints["format"](q)), eq(g("offset"), D.ints["offset"](q)), eq(g("size"), D.ints["size"](q)),
                           eq(g("creation_date").secs, D.ints["cdate"](q)), eq(g("last_modification_date").secs, D.ints["mdate"](q)), eq(g("last_access_date").secs, D.ints["adate"](q)),
                           eq(g("comment").seq.n, D.cm_len(q)))
                ctx.oblige(f"C10.__enter__[{mode}].entry_i_is_what_slot_i_holds", Implies(rng(0, i, S.F.N), same), kind="C10")
                c = ctx.fresh_const("chr")
                ctx.oblige(f"C10.__enter__[{mode}].entry_i_comment_is_slot_i_comment", Implies(And(rng(0, i, S.F.N), rng(0, c, D.cm_len(q))), eq(g("comment").seq.get(c), D.cm_chr(q, c))), kind="C10")
                ctx.oblige(f"C10.__enter__[{mode}].header_fields", And(eq(t.fields.get("version"), S.F.version), eq(t.fields.get("nEntries"), S.F.N)), kind="C10")
        out.append(Task(f"C08.__enter__[{mode}]", "basictdf.basictdf.Tdf.__enter__", ["C08", "C10", "C17", "C06"], t_enter, kind="ct"))

    def t_enter_badsig(interp):
        """a file that does not start with the TDF signature is refused and yields no table"""
        ctx = interp.ctx
        install_contracts(interp)
        S = State(interp, mode="rb", inside=False, handle=False, entries_loaded=False)
        S.F.sig_ok = False
        S.F0.sig_ok = False
        sb = z3.Function("F.sigbyte", I, I)
        from .container import SIG
        ctx.assume(Or(*[sb(i) != SIG[i] for i in range(16)]))
        f = _tdf_method(interp, S, "__enter__")
        oc = _outcome(interp, lambda: interp.call(f, [S.tdf], {}))
        ctx.oblige("C17.__enter__.wrong_signature_is_refused", oc[0] == "raise", kind="C17")
        ctx.oblige("C17.__enter__.wrong_signature_yields_no_table", "entries" not in S.tdf.fields, kind="C17")
        file_untouched(interp, "C17.__enter__[bad signature]", S, kind="C17")
    out.append(Task("C17.__enter__[bad signature]", "basictdf.basictdf.Tdf.__enter__", ["C17"], t_enter_badsig, kind="ct"))

    for mode in ("rb", "r+b"):
        for exc in (False, True):
            def t_exit(interp, mode=mode, exc=exc):
                ctx = interp.ctx
                install_contracts(interp)
                S = State(interp, mode=mode, inside=True)
                f = _tdf_method(interp, S, "__exit__")
                args = [EXC["ValueError"], VObj(EXC["ValueError"]), None] if exc else [None, None, None]
                oc = _outcome(interp, lambda: interp.call(f, [S.tdf] + args, {}))
                tag = f"C08.__exit__[{mode}{',exception' if exc else ''}]"
                t = S.tdf
                ctx.oblige(f"{tag}.leaves_the_context_read_only_with_the_handle_closed", oc[0] == "return" and t.fields["_inside_context"] is False and t.fields["_mode"] == "rb" and S.h.closed, kind="C08")
                ctx.oblige(f"{tag}.does_not_suppress_the_exception", oc[0] == "return" and (oc[1] is None or oc[1] is False), kind="C08")
                file_untouched(interp, tag, S)
            out.append(Task(f"C08.__exit__[{mode}{',exception' if exc else ''}]", "basictdf.basictdf.Tdf.__exit__", ["C08"], t_exit, kind="ct"))
    return out


# ================================================================================================ C17: new / copy / open
class VSink(VBytesIO):
    """file opened with 'wb': a fresh empty file receiving bytes sequentially"""

    def __init__(self, file):
        super().__init__("wb:" + file.name)
        self.file = file
        self.closed = False

    def py_getattr(self, interp, name):
        if name == "__enter__":
            return VBuiltin("file.__enter__", lambda interp, a, k: self)
        if name in ("__exit__", "close"):
            def close(interp, a, k):
                self.closed = True
                self.file.content = list(self.atoms)
                return None
            return VBuiltin("file.close", close)
        if name == "flush":
            return VBuiltin("file.flush", lambda interp, a, k: None)
        return NOATTR


class FSPath(VPath):
    """a path of the modelled file system: may or may not exist; content is a stream term or an abstract FileState"""

    def __init__(self, interp, name, exists):
        self.interp, self.name = interp, name
        self.file = FileState(name)
        self.file.exists = exists
        self.file.content = None
        self.file.truncated = False

    def py_getattr(self, interp, name):
        F = self.file
        if name == "exists":
            return VBuiltin("Path.exists", lambda interp, a, k: F.exists)
        if name == "open":
            def op(interp, a, k):
                mode = a[0] if a else k.get("mode", "r")
                if mode == "wb":
                    interp.writes.append((F, "file.create_or_truncate"))
                    F.exists = True
                    F.truncated = True
                    s = VSink(F)
                    interp.register(s)
                    return s
                return VPath.py_getattr(self, interp, "open").fn(interp, a, k)
            return VBuiltin("Path.open", op)
        return VPath.py_getattr(self, interp, name)


def fs_tasks():
    out = []

    def setup(interp, paths):
        """modelled file system: name -> FSPath; pathlib.Path(x) resolves VPath objects to themselves and the symbolic
        string 'target' to paths['target']"""
        mod = interp.loader.import_module(interp, "pathlib")

        def Path(interp_, a, k):
            x = a[0]
            if isinstance(x, VPath):
                return x
            if isinstance(x, str) and x in paths:
                return paths[x]
            raise OutOfReach("path outside the modelled file system")
        mod.ns["Path"] = VBuiltin("Path", Path)
        sh = interp.loader.import_module(interp, "shutil")

        def copyfile(interp_, a, k):
            src, dst = a[0], a[1]
            if not (isinstance(src, VPath) and isinstance(dst, VPath)):
                raise OutOfReach("copyfile of unmodelled paths")
            interp.ctx.oblige("C17.copy.source_has_nothing_pending_in_a_buffer(the copy sees every byte)", not src.file.dirty, kind="C17")
            interp.writes.append((dst.file, "file.copy_onto"))
            dst.file.exists = True
            dst.file.copied_from = src.file.snapshot()
            return dst
        sh.ns["copyfile"] = VBuiltin("shutil.copyfile", copyfile)
        return interp.loader.import_module(interp, "basictdf.basictdf").ns["Tdf"]

    for exists in (True, False):
        def t_new(interp, exists=exists):
            ctx = interp.ctx
            install_contracts(interp)
            from .codec import CONTRACTS as CC
            tgt = FSPath(interp, "target", exists)
            cls = setup(interp, {"target": tgt})
            new = cls.attrs["new"]
            new = new.fn if hasattr(new, "fn") else new
            oc = _outcome(interp, lambda: interp.call(new, ["target"], {}))
            tag = f"C17.new[target {'exists' if exists else 'absent'}]"
            if exists:
                ctx.oblige(f"{tag}.raises_FileExistsError", oc[0] == "raise" and oc[1].cls.is_subclass(EXC["FileExistsError"]), kind="C17")
                ctx.oblige(f"{tag}.existing_file_untouched", not any(w[0] is tgt.file for w in interp.writes) and not tgt.file.truncated, kind="C17")
                return
            ok = oc[0] == "return" and isinstance(oc[1], VObj) and oc[1].cls is cls
            ctx.oblige(f"{tag}.returns_a_Tdf_for_the_new_file", ok and oc[1].fields.get("file_path") is tgt, kind="C17")
            content = tgt.file.content
            ctx.oblige(f"{tag}.file_written_and_closed", content is not None, kind="C17")
            if content is None:
                return
            # the canonical empty container: header (version 1, 14 slots, zero reserved words) + 14 unused entries at 4096
            from .symlayout import SymE
            from spec.layouts import LAYOUTS
            now = interp.now_log[0] if getattr(interp, "now_log", None) else VDate(z3.Const("nonow", I), 0)
            ctx.oblige(f"{tag}.one_creation_instant", len(getattr(interp, "now_log", [])) == 1, kind="C17")

            class NSv:
                pass
            hv = NSv()
            hv.version, hv.nEntries, hv.creation_date, hv.last_modification_date, hv.last_access_date = 1, 14, now, now, now
            E = SymE(ctx)
            LAYOUTS["Header"](hv, E)
            for _ in range(14):
                ev = NSv()
                ev.type, ev.format, ev.offset, ev.size = 0, 0, 4096, 0
                ev.creation_date = ev.last_modification_date = ev.last_access_date = now
                ev.comment = GENERATED
                n0 = len(E.atoms)
                LAYOUTS["Entry"](ev, E)
                # the comment of an unused slot is not part of the property: any 256 bytes
                k_ = next(x for x in range(n0, len(E.atoms)) if isinstance(E.atoms[x], AText))
                free = APad(256, dontcare=True)
                free.any_content = True
                E.atoms[k_:k_ + 3] = [free]
            for n, g in stream_eq_goals(ctx, content, E.atoms, tag + ".bytes"):
                ctx.oblige(n, g, kind="C17")
            ctx.oblige(f"{tag}.file_is_exactly_4096_bytes", eq(slen(ctx, content), 4096), kind="C17")
        out.append(Task(f"C17.new[{'exists' if exists else 'absent'}]", "basictdf.basictdf.Tdf.new", ["C17", "C06", "C09"], t_new, kind="ct"))

    for exists in (True, False):
        for inside in (False, True):
            def t_copy(interp, exists=exists, inside=inside):
                ctx = interp.ctx
                install_contracts(interp)
                tgt = FSPath(interp, "target", exists)
                cls = setup(interp, {"target": tgt})
                S = State(interp, mode="r+b" if inside else "rb", inside=inside, handle=inside)
                f = _tdf_method(interp, S, "copy")
                oc = _outcome(interp, lambda: interp.call(f, [S.tdf, "target"], {}))
                tag = f"C17.copy[target {'exists' if exists else 'absent'}{', inside a write context' if inside else ''}]"
                if exists:
                    ctx.oblige(f"{tag}.raises_FileExistsError", oc[0] == "raise" and oc[1].cls.is_subclass(EXC["FileExistsError"]), kind="C17")
                    ctx.oblige(f"{tag}.existing_file_untouched", not any(w[0] is tgt.file for w in interp.writes), kind="C17")
                else:
                    ok = oc[0] == "return" and isinstance(oc[1], VObj) and oc[1].cls is cls and oc[1] is not S.tdf
                    ctx.oblige(f"{tag}.returns_a_new_Tdf_for_the_copy", ok and oc[1].fields.get("file_path") is tgt, kind="C17")
                    cp = getattr(tgt.file, "copied_from", None)
                    ctx.oblige(f"{tag}.target_holds_a_copy_of_the_source", cp is not None, kind="C17")
                    if cp is not None:
                        for n, g in same_file_goals(ctx, tag + ".copy_equals_source", cp, S.F0):
                            ctx.oblige(n, g, kind="C17")
                    if ok:
                        ctx.oblige(f"{tag}.copy_object_is_read_only_and_outside_a_context", oc[1].fields.get("_mode") == "rb" and oc[1].fields.get("_inside_context") is False, kind="C17")
                # the source is only read
                ctx.oblige(f"{tag}.source_untouched", not any(w[0] is S.F for w in interp.writes), kind="C08")
            out.append(Task(f"C17.copy[{'exists' if exists else 'absent'}{',inside' if inside else ''}]", "basictdf.basictdf.Tdf.copy", ["C17", "C08"], t_copy, kind="ct"))

    def t_open_missing(interp):
        ctx = interp.ctx
        install_contracts(interp)
        tgt = FSPath(interp, "target", False)
        cls = setup(interp, {"target": tgt})
        oc = _outcome(interp, lambda: interp.instantiate(cls, ["target"], {}))
        ctx.oblige("C17.open.missing_path_raises_FileNotFoundError", oc[0] == "raise" and oc[1].cls.is_subclass(EXC["FileNotFoundError"]), kind="C17")
        ctx.oblige("C17.open.missing_path_not_created", tgt.file.exists is False and not any(w[0] is tgt.file for w in interp.writes), kind="C17")
    out.append(Task("C17.open[missing]", "basictdf.basictdf.Tdf.__init__", ["C17"], t_open_missing, kind="ct"))

    def t_open_existing(interp):
        ctx = interp.ctx
        install_contracts(interp)
        tgt = FSPath(interp, "target", True)
        cls = setup(interp, {"target": tgt})
        oc = _outcome(interp, lambda: interp.instantiate(cls, ["target"], {}))
        ok = oc[0] == "return"
        ctx.oblige("C08.open.new_object_is_read_only_outside_a_context", ok and oc[1].fields.get("_mode") == "rb" and oc[1].fields.get("_inside_context") is False, kind="C08")
        ctx.oblige("C08.open.constructing_the_object_does_not_touch_the_file", not any(w[0] is tgt.file for w in interp.writes), kind="C08")
    out.append(Task("C08.open[existing]", "basictdf.basictdf.Tdf.__init__", ["C08", "C17"], t_open_existing, kind="ct"))
    return out


def all_tasks():
    return access_tasks() + fs_tasks()


def property_config(tasks, select):
    P = {}
    from .tasks_container import PRIMS
    callees = select(tasks, ("W.Entry", "B.Entry", "RT.Entry", "S.Entry", "DATE.", "C13.BTSString.", "CT._get_block_class")) + PRIMS(tasks, select)
    P["C08"] = dict(decisive=select(tasks, ("C08.", "C17.copy")) + select(tasks, ("CT.has_", "CT.get_block")), chain=callees, harness=dict(extra=[("harness.container_checks2", "run_c08")]))
    P["C17"] = dict(decisive=select(tasks, ("C17.", "C08.open", "C08.__enter__", "W.Entry", "S.Entry")), chain=[c for c in callees if not c.startswith(("W.Entry", "S.Entry"))],
                    harness=dict(extra=[("harness.container_checks2", "run_c17")]))
    return P
