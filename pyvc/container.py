"""State engine for the container (basictdf.Tdf): abstract file = header + jump table + payload bytes, the in-memory entry
list, the handle, the file system; contracts of the callees used by the Tdf methods; the invariants of DESIGN.md 3.4.

The file is a data refinement of the byte file: the table region is seen through the verified TdfEntry codec (an entry
written at byte position q is an abstract record stored at q; slot i lives at q = 64 + 288 i), payload bytes are a function
k -> byte, the header is its field tuple.  That TdfEntry._write emits exactly those 288 bytes and _build inverts them is
proved by the codec engine (W.Entry / B.Entry / RT.Entry) and used here as the callee contract."""
import z3

from . import npmodel
from .core import (And, B, I, If, Implies, Not, Or, OutOfReach, PyRaise, Seq, VBuiltin, VDate, VEnum, VFloat, VList, VObj, VStr, conc, eq,
                   is_int, rng, zbool, zint)
from .interp import EXC, ClassModel, FuncModel
from .npmodel import NOATTR, VBytes, VBytesIO, to_bytes, as_int
from .stream import AField, ALit, APad, ARaw, ASub, AText, slen
from .stream import _mentions

INT_FIELDS = ["type", "format", "offset", "size", "cdate", "cfrac", "mdate", "mfrac", "adate", "afrac"]
SIG = bytes([0x82, 0x4B, 0x60, 0x41, 0xD3, 0x11, 0x84, 0xCA, 0x60, 0x00, 0xB6, 0xAC, 0x16, 0x68, 0x0C, 0x08])


class Rec:
    """one abstract table entry: integer fields + comment (VStr)"""

    def __init__(self, ints, comment):
        self.ints, self.comment = dict(ints), comment


class Cells:
    """records addressed by an integer key (list index for the in-memory table, byte position for the disk table).
    Functional store: ``get(field)(key)``; writes rebuild the closures.  Inside a summarised loop writes are recorded and
    turned into a map over the iteration space at loop exit (MAP rule: every iteration writes only its own key)."""

    def __init__(self, ints, cm_len, cm_chr, label=""):
        self.ints, self.cm_len, self.cm_chr, self.label = dict(ints), cm_len, cm_chr, label
        self._rec = None

    @staticmethod
    def symbolic(name, arity=1):
        ints = {f: (lambda k, f=f: z3.Function(f"{name}.{f}", I, I)(zint(k))) for f in INT_FIELDS}
        ln = lambda k: z3.Function(f"{name}.comment.len", I, I)(zint(k))
        ch = lambda k, c: z3.Function(f"{name}.comment.chr", I, I, I)(zint(k), zint(c))
        return Cells(ints, ln, ch, name)

    def copy(self):
        return Cells(self.ints, self.cm_len, self.cm_chr, self.label)

    def rec(self, key):
        """the record stored at ``key`` NOW (a value: later writes do not show through it)"""
        ints, cm_len, cm_chr = self.ints, self.cm_len, self.cm_chr
        pending = list(self._rec["writes"]) if self._rec is not None else []
        if self._rec is not None:
            self._rec["reads"].append(key)

        def ov(base, pick):
            v = base
            for (k2, r) in pending:
                v = If(eq(zint(key), zint(k2)), pick(r), v)
            return v
        return Rec({f: ov(ints[f](key), lambda r, f=f: r.ints[f]) for f in INT_FIELDS},
                   VStr(Seq(ov(cm_len(key), lambda r: r.comment.seq.n), lambda c: ov(cm_chr(key, c), lambda r: r.comment.seq.get(c)))))

    def read(self, f, key):
        return self.rec(key).ints[f] if self._rec is not None else self.ints[f](key)

    def read_len(self, key):
        return self.rec(key).comment.seq.n if self._rec is not None else self.cm_len(key)

    def read_chr(self, key, c):
        return self.rec(key).comment.seq.get(c) if self._rec is not None else self.cm_chr(key, c)

    # ---- writes
    def write(self, key, rec):
        if self._rec is not None:
            self._rec["writes"].append((key, rec))
            return
        key = zint(key)
        old_i, old_l, old_c = self.ints, self.cm_len, self.cm_chr
        self.ints = {f: (lambda k, f=f: If(eq(zint(k), key), rec.ints[f], old_i[f](k))) for f in INT_FIELDS}
        self.cm_len = lambda k: If(eq(zint(k), key), rec.comment.seq.n, old_l(k))
        self.cm_chr = lambda k, c: If(eq(zint(k), key), rec.comment.seq.get(c), old_c(k, c))

    def write_field(self, key, f, v):
        r = self.rec(key)
        r.ints[f] = v
        self.write(key, r)

    # ---- fold protocol
    def begin_fold(self, ctx, k):
        if self._rec is not None:
            raise OutOfReach("nested summarised loops over a table")
        self._rec = dict(writes=[], reads=[])

    def end_fold_prepare(self, ctx, k, lo, hi):
        r, self._rec = self._rec, None
        return r

    def end_fold_commit(self, ctx, k, lo, hi, r):
        if not r or not r["writes"]:
            return
        subs = [(a_, zint(b_)) for a_, b_ in getattr(ctx, "substs", [])]

        def ap(t):
            return z3.simplify(z3.substitute(zint(t), *subs)) if subs and isinstance(zint(t), z3.ExprRef) else t
        r["writes"] = [(ap(k2), Rec({f: ap(v) for f, v in rc.ints.items()}, VStr(Seq(ap(rc.comment.seq.n), lambda c, rc=rc: ap(rc.comment.seq.get(c)))))) for k2, rc in r["writes"]]
        r["reads"] = [ap(x) for x in r["reads"]]
        keys = [w[0] for w in r["writes"]]
        key = keys[0]
        for k2 in keys[1:]:
            if not ctx.entails(eq(zint(k2), zint(key))):
                raise OutOfReach("one loop iteration writes several table entries")
        last = r["writes"][-1][1]
        # key must be affine in the loop index: key = a + c*k with c a positive integer constant
        c = None
        for cand in (1, 288):
            a = z3.simplify(zint(key) - cand * k)
            if not _mentions(a, k):
                c = cand
                break
        if c is None:
            raise OutOfReach("table key is not an affine function of the loop index")
        for rd in r["reads"]:
            if not ctx.entails(eq(zint(rd), zint(key))):
                ctx.oblige(f"loop.{self.label}.iteration_reads_only_its_own_entry_or_entries_no_iteration_writes",
                           Not(And(rng(lo, z3.simplify((zint(rd) - a) / c), hi), (zint(rd) - a) % c == 0)), kind="loop")
        old_i, old_l, old_c = self.ints, self.cm_len, self.cm_chr

        def idx(q):
            q = zint(q)
            return z3.simplify((q - a) / c) if c != 1 else z3.simplify(q - a)

        def hit(q):
            q = zint(q)
            return And(zint(lo) <= idx(q), idx(q) < zint(hi), (q - a) % c == 0) if c != 1 else And(zint(lo) <= idx(q), idx(q) < zint(hi))

        def sub(t, q):
            return z3.substitute(zint(t), (k, idx(q))) if isinstance(zint(t), z3.ExprRef) else t
        self.ints = {f: (lambda q, f=f: If(hit(q), sub(last.ints[f], q), old_i[f](q))) for f in INT_FIELDS}
        self.cm_len = lambda q: If(hit(q), sub(last.comment.seq.n, q), old_l(q))
        self.cm_chr = lambda q, ch: If(hit(q), sub(last.comment.seq.get(ch), q), old_c(q, ch))


def slot_pos(i):
    return 64 + 288 * zint(i)


class FileState:
    """abstract content of one TDF file"""

    def __init__(self, name="F"):
        self.name = name
        self.sig_ok = True
        self.version = z3.Const(f"{name}.version", I)
        self.N = z3.Const(f"{name}.N", I)
        self.hdr = {d: z3.Const(f"{name}.hdr.{d}", I) for d in ("cdate", "mdate", "adate")}
        self.D = Cells.symbolic(f"{name}.slot")          # keyed by byte position
        p = z3.Function(f"{name}.byte", I, I)
        self.P = lambda k: p(zint(k))
        self.L = z3.Const(f"{name}.len", I)
        self.dirty = False
        self.corrupt = False
        self.exists = True

    def snapshot(self):
        s = FileState.__new__(FileState)
        s.__dict__.update(self.__dict__)
        s.D = self.D.copy()
        return s

    @property
    def T0(self):
        return 64 + 288 * self.N

    def slot(self, i):
        return self.D.rec(slot_pos(i))


def same_file_goals(ctx, tag, new, old):
    """obligations: the file content did not change"""
    G = []
    G.append((f"{tag}.file_length_unchanged", eq(new.L, old.L)))
    G.append((f"{tag}.header_unchanged", And(eq(new.version, old.version), eq(new.N, old.N), new.sig_ok == old.sig_ok)))
    if new.P is not old.P:
        k = ctx.fresh_const("byte")
        G.append((f"{tag}.payload_bytes_unchanged", Implies(rng(old.T0, k, old.L), eq(new.P(k), old.P(k)))))
    if new.D.ints is not old.D.ints or new.D.cm_len is not old.D.cm_len:
        i = ctx.fresh_const("slot")
        c = ctx.fresh_const("chr")
        q = slot_pos(i)
        G.append((f"{tag}.table_unchanged", Implies(rng(0, i, old.N), And(*[eq(new.D.ints[f](q), old.D.ints[f](q)) for f in INT_FIELDS if not f.endswith("frac")],
                                                                         eq(new.D.cm_len(q), old.D.cm_len(q))))))
        G.append((f"{tag}.table_comments_unchanged", Implies(And(rng(0, i, old.N), rng(0, c, old.D.cm_len(q))), eq(new.D.cm_chr(q, c), old.D.cm_chr(q, c)))))
    G.append((f"{tag}.nothing_left_unflushed", not new.dirty))
    G.append((f"{tag}.file_not_corrupted", not new.corrupt))
    return G


# ------------------------------------------------------------------------------------------------ in-memory entry list
class VEntryList(VList):
    """self.entries: list of DISTINCT TdfEntry objects, stored as a struct of functions over the list index.  Installing an
    object requires it to be fresh (not already an element): checked at each store."""

    def __init__(self, interp, n, cells, label="entries"):
        super().__init__(None, n, None, epoch=interp.ctx.epoch, label=label)
        self.cells = cells
        self.interp = interp
        self.at = lambda k: VEntryView(self, k)
        import weakref
        self.views = weakref.WeakSet()       # live references to elements (temporaries made while evaluating quantified tests vanish)

    def snapshot(self):
        return (self.n, self.cells.copy())

    def on_setitem(self, interp, lst, i, v):
        self.cells.write(i, rec_of(interp, v))
        _become_view(interp, v, self, i)

    def on_append(self, interp, lst, v):
        i = self.n
        self.cells.write(i, rec_of(interp, v))
        self.n = z3.simplify(zint(self.n) + 1)
        _become_view(interp, v, self, i)

    def on_delitem(self, interp, lst, i):
        if self.cells._rec is not None:
            raise OutOfReach("deleting a table entry inside a summarised loop")
        i = zint(i)
        for v in list(self.views):
            v.on_delete(interp, i)
        old = self.cells
        self.cells = Cells({f: (lambda k, f=f: old.ints[f](If(zint(k) < i, zint(k), zint(k) + 1))) for f in INT_FIELDS},
                           lambda k: old.cm_len(If(zint(k) < i, zint(k), zint(k) + 1)),
                           lambda k, c: old.cm_chr(If(zint(k) < i, zint(k), zint(k) + 1), c), old.label)
        self.n = z3.simplify(zint(self.n) - 1)

    def begin_fold(self, ctx, k):
        self.cells.begin_fold(ctx, k)

    def end_fold_prepare(self, ctx, k, lo, hi):
        return self.cells.end_fold_prepare(ctx, k, lo, hi)

    def end_fold_commit(self, ctx, k, lo, hi, tok):
        self.cells.end_fold_commit(ctx, k, lo, hi, tok)


def _entry_class(interp):
    return interp.loader.import_module(interp, "basictdf.basictdf").ns["TdfEntry"]


def _blocktype(interp):
    return interp.loader.import_module(interp, "basictdf.tdfBlock").ns["BlockType"]


class VEntryView(VObj):
    """element ``idx`` of a VEntryList (a TdfEntry object living in the list)"""
    __hash__ = object.__hash__

    def __init__(self, lst, idx):
        super().__init__(_entry_class(lst.interp), epoch=0, label=f"entries[{idx}]")
        self.lst, self.idx = lst, zint(idx)
        lst.views.add(self)

    def py_is(self, interp, a, b):
        """two references into the same entry list are the same object exactly when they stand at the same position (the
        elements of the list are pairwise distinct objects: assumption 7)"""
        if isinstance(a, VEntryView) and isinstance(b, VEntryView) and a.lst is not None and a.lst is b.lst:
            return eq(a.idx, b.idx)
        return None

    def on_delete(self, interp, i):
        if self.lst is None:
            return
        c = conc(eq(self.idx, i))
        if c is True or (c is None and interp.ctx.entails(eq(self.idx, i))):
            self.detach(interp)
        elif c is False or interp.ctx.entails(Not(eq(self.idx, i))):
            self.idx = z3.simplify(If(self.idx > i, self.idx - 1, self.idx))
        else:
            raise OutOfReach("a live reference to a table entry whose position relative to the removed one is unknown")

    def detach(self, interp):
        r = self.lst.cells.rec(self.idx)
        self.lst.views.discard(self)
        self.lst = None
        self.fields.update(_fields_of_rec(interp, r))

    def py_getattr(self, interp, name):
        if self.lst is None:
            return NOATTR
        cells, k = self.lst.cells, self.idx
        if name == "type":
            return VEnum(_blocktype(interp), cells.read("type", k))
        if name in ("format", "offset", "size"):
            return cells.read(name, k)
        if name in ("creation_date", "last_modification_date", "last_access_date"):
            p = {"creation_date": "c", "last_modification_date": "m", "last_access_date": "a"}[name]
            return VDate(cells.read(p + "date", k), cells.read(p + "frac", k))
        if name == "comment":
            return VStr(Seq(cells.read_len(k), lambda c: cells.read_chr(k, c)))
        if name == "nBytes":
            return 288
        return NOATTR

    def py_setattr(self, interp, name, value):
        if self.lst is None:
            return False
        r = self.lst.cells.rec(self.idx)
        _set_rec_field(interp, r, name, value)
        self.lst.cells.write(self.idx, r)
        interp.writes.append((self.lst, f"entry.{name}"))
        return True


def _set_rec_field(interp, r, name, value):
    if name == "type":
        r.ints["type"] = value.val if isinstance(value, VEnum) else as_int(interp, value)
    elif name in ("format", "offset", "size"):
        r.ints[name] = as_int(interp, value)
    elif name in ("creation_date", "last_modification_date", "last_access_date"):
        p = {"creation_date": "c", "last_modification_date": "m", "last_access_date": "a"}[name]
        if not isinstance(value, VDate):
            raise OutOfReach("non-date stored into a date field of a table entry")
        r.ints[p + "date"], r.ints[p + "frac"] = value.secs, value.frac
    elif name == "comment":
        r.comment = value if isinstance(value, VStr) else VStr(interp.as_seq(value))
    elif name == "nBytes":
        pass
    else:
        raise OutOfReach(f"new attribute {name} on a table entry")


def _fields_of_rec(interp, r):
    bt = _blocktype(interp)
    return dict(type=VEnum(bt, r.ints["type"]), format=r.ints["format"], offset=r.ints["offset"], size=r.ints["size"],
                creation_date=VDate(r.ints["cdate"], r.ints["cfrac"]), last_modification_date=VDate(r.ints["mdate"], r.ints["mfrac"]),
                last_access_date=VDate(r.ints["adate"], r.ints["afrac"]), comment=r.comment, nBytes=288)


def rec_of(interp, e):
    """abstract record of a TdfEntry object (fresh VObj or view)"""
    g = lambda n: interp.getattr(e, n)
    t = g("type")
    ints = dict(type=t.val if isinstance(t, VEnum) else as_int(interp, t), format=as_int(interp, g("format")), offset=as_int(interp, g("offset")), size=as_int(interp, g("size")))
    for p, n in (("c", "creation_date"), ("m", "last_modification_date"), ("a", "last_access_date")):
        d = g(n)
        if not isinstance(d, VDate):
            interp.raise_("AttributeError", "timestamp")
        ints[p + "date"], ints[p + "frac"] = d.secs, d.frac
    cm = g("comment")
    if not isinstance(cm, (VStr, str)):
        interp.raise_("AttributeError", "encode")
    for f in ("format", "offset", "size"):
        if not is_int(ints[f]):
            raise OutOfReach(f"non-integer {f} in a table entry")
    return Rec(ints, VStr(interp.as_seq(cm)) if not isinstance(cm, VStr) else cm)


def _become_view(interp, v, lst, i):
    if isinstance(v, VEntryView):
        if v.lst is not None:
            interp.ctx.oblige("table.installed_entry_is_a_fresh_object(not already in the table)", False, kind="alias")
            raise OutOfReach("the same entry object installed twice in the table")
        v.lst, v.idx = lst, zint(i)
        lst.views.add(v)
        return
    if isinstance(v, VObj) and v.cls is _entry_class(interp):
        v.__class__ = VEntryView
        v.lst, v.idx = lst, zint(i)
        v.fields.clear()
        lst.views.add(v)
        return
    raise OutOfReach("a non-entry object stored into the table")


# ------------------------------------------------------------------------------------------------ file handle
HDR = [("sig", 16), ("version", 4), ("N", 4), ("pad1", 8), ("cdate", 4), ("mdate", 4), ("adate", 4), ("pad2", 20)]


class VHandle:
    """binary file handle over a FileState (open('rb') / open('r+b'))"""

    def __init__(self, interp, file, writable, label="handler"):
        self.interp, self.file, self.writable, self.label = interp, file, writable, label
        self.pos = 0
        self.closed = False
        self._fold = None

    # fold protocol: sequential access advances by a fixed stride per iteration, or every iteration seeks absolutely first
    def begin_fold(self, ctx, k):
        if self.closed:
            return
        lo = ctx.folds[-1][1]
        st = z3.Const(f"stride!{ctx.uid()}", I)
        self._fold = dict(pos0=self.pos, st=st, used=False, abs=False, k=k, lo=lo, omark=len(ctx.obligs))
        self.pos = z3.simplify(zint(self.pos) + st * (k - zint(lo)))
        self._fold["start"] = self.pos

    def end_fold_prepare(self, ctx, k, lo, hi):
        f, self._fold = self._fold, None
        if f is None:
            return None
        f["end"] = self.pos
        d = z3.simplify(zint(f["end"]) - zint(f["start"]))
        if not _mentions(d, f["st"]) and not _mentions(d, k):
            # sequential access: the stride is, by definition, what one iteration advances
            f["stride"] = d
            ctx.assume(f["st"] == d)
            for ob in ctx.obligs[f["omark"]:]:
                ob.pc.append(f["st"] == d)
            ctx.substs = getattr(ctx, "substs", []) + [(f["st"], d)]
        return f

    def end_fold_commit(self, ctx, k, lo, hi, f):
        if f is None:
            return
        from .loops import count
        n = count(ctx, lo, hi)
        if "stride" in f:
            ctx.assume(f["st"] == f["stride"])
            self.pos = z3.simplify(zint(f["pos0"]) + f["stride"] * zint(n))
        elif not f["used"]:
            last = z3.substitute(zint(f["end"]), (k, zint(hi) - 1)) if isinstance(zint(f["end"]), z3.ExprRef) else f["end"]
            self.pos = z3.simplify(If(zint(n) > 0, last, zint(f["pos0"])))
            ctx.assume(f["st"] == 0)
        else:
            raise OutOfReach("file position in a loop is neither sequential nor re-set by every iteration")

    def _use_pos(self):
        if self._fold is not None and not self._fold["abs"]:
            self._fold["used"] = True
        return self.pos

    def _check_open(self):
        if self.closed:
            self.interp.raise_("ValueError", "I/O operation on closed file")

    def py_getattr(self, interp, name):
        ctx = interp.ctx
        F = self.file

        def seek(interp, a, k):
            self._check_open()
            off = as_int(interp, a[0])
            whence = conc(a[1]) if len(a) > 1 else 0
            if whence == 0:
                if self._fold is not None:
                    self._fold["abs"] = True
                self.pos = off
            elif whence == 1:
                self.pos = z3.simplify(zint(self._use_pos()) + zint(off))
            else:
                raise OutOfReach("seek from the end")
            return self.pos

        def read(interp, a, k):
            self._check_open()
            pos = self._use_pos()
            if not a:
                n = z3.simplify(If(zint(F.L) > zint(pos), zint(F.L) - zint(pos), 0))
                data = VBytes([ARaw(Seq(n, lambda i, pos=pos, P=F.P: P(zint(pos) + zint(i))))])
                self.pos = z3.simplify(zint(pos) + n)
                return data
            n = as_int(interp, a[0])
            cp, cn = conc(pos), conc(n)
            if cp is not None and cn is not None and cp + cn <= 64:
                atoms = self._header_atoms(cp, cn)
                self.pos = cp + cn
                return VBytes(atoms)
            raise OutOfReach(f"raw read of {n} bytes at position {pos} (outside the header)")

        def write(interp, a, k):
            self._check_open()
            if not self.writable:
                interp.raise_("UnsupportedOperation", "not writable")
            data = to_bytes(a[0])
            pos = self._use_pos()
            atoms = [x for x in data.atoms if not (isinstance(x, (APad,)) and conc(x.n) == 0)]
            n = slen(ctx, atoms)
            F.dirty = True
            interp.writes.append((F, "file.write"))
            if len(atoms) == 1 and isinstance(atoms[0], ASub) and atoms[0].name == "Entry":
                self.write_entry(interp, pos, atoms[0].obj)
            elif len(atoms) == 1 and isinstance(atoms[0], ASub) and atoms[0].name == "Block":
                b = atoms[0].obj
                old = F.P
                F.P = lambda kk, old=old, pos=pos, b=b, n=n: If(And(zint(pos) <= zint(kk), zint(kk) < zint(pos) + zint(n)), b.payload(zint(kk) - zint(pos)), old(kk))
                ctx.oblige("file.block_written_in_the_data_area", zint(pos) >= zint(F.T0), kind="file")
                F.L = z3.simplify(If(zint(pos) + zint(n) > zint(F.L), zint(pos) + zint(n), zint(F.L)))
            elif len(atoms) == 1 and isinstance(atoms[0], ARaw):
                sq = atoms[0].seq
                old = F.P
                F.P = lambda kk, old=old, pos=pos, sq=sq: If(And(zint(pos) <= zint(kk), zint(kk) < zint(pos) + zint(sq.n)), sq.get(zint(kk) - zint(pos)), old(kk))
                ctx.oblige("file.raw_bytes_written_in_the_data_area", Or(zint(sq.n) == 0, zint(pos) >= zint(F.T0)), kind="file")
                F.L = z3.simplify(If(zint(pos) + zint(n) > zint(F.L), zint(pos) + zint(n), zint(F.L)))
            elif not atoms:
                pass
            else:
                raise OutOfReach(f"write of {atoms!r} into the file")
            self.pos = z3.simplify(zint(pos) + zint(n))
            return n

        def truncate(interp, a, k):
            self._check_open()
            if not self.writable:
                interp.raise_("UnsupportedOperation", "not writable")
            if a:
                raise OutOfReach("truncate(size)")
            F.L = self._use_pos()
            F.dirty = True
            interp.writes.append((F, "file.truncate"))
            return F.L

        def flush(interp, a, k):
            self._check_open()
            F.dirty = False
            return None

        def close(interp, a, k):
            if not self.closed:
                F.dirty = False
            self.closed = True
            return None

        def tell(interp, a, k):
            self._check_open()
            return self._use_pos()
        def q_writable(interp, a, k):
            self._check_open()
            return bool(self.writable)

        def q_readable(interp, a, k):
            self._check_open()
            return True
        table = dict(seek=seek, read=read, write=write, truncate=truncate, flush=flush, close=close, tell=tell, writable=q_writable, readable=q_readable,
                     seekable=q_readable)
        if name in table:
            return VBuiltin("file." + name, table[name])
        if name == "closed":
            return self.closed
        if name == "mode":
            return "r+b" if self.writable else "rb"
        if name == "__enter__":
            return VBuiltin("file.__enter__", lambda interp, a, k: self)
        if name == "__exit__":
            return VBuiltin("file.__exit__", lambda interp, a, k: close(interp, [], {}))
        return NOATTR

    def _header_atoms(self, pos, n):
        F = self.file
        off = 0
        out = []
        for nm, sz in HDR:
            if off >= pos + n:
                break
            if off + sz > pos:
                if off < pos or off + sz > pos + n:
                    if nm.startswith("pad"):
                        lo, hi = max(off, pos), min(off + sz, pos + n)
                        out.append(APad(hi - lo, dontcare=True))
                    else:
                        raise OutOfReach(f"header read [{pos},{pos + n}) cuts through the {nm} field")
                elif nm == "sig":
                    out.append(ALit(SIG) if F.sig_ok is True else ARaw(Seq(16, lambda i: z3.Function(f"{F.name}.sigbyte", I, I)(zint(i)))))
                elif nm.startswith("pad"):
                    out.append(APad(sz, dontcare=True))
                elif nm == "version":
                    out.append(AField("u4", 1, Seq.of([F.version])))
                elif nm == "N":
                    out.append(AField("i4", 1, Seq.of([F.N])))
                else:
                    out.append(AField("i4", 1, Seq.of([F.hdr[nm]])))
            off += sz
        return out

    def write_entry(self, interp, pos, rec):
        """288 bytes of enc_Entry(rec) at byte position pos: stores the abstract record at that position"""
        ctx = interp.ctx
        F = self.file
        ctx.oblige("file.table_entry_written_on_a_slot_boundary_inside_the_table",
                   And((zint(pos) - 64) % 288 == 0, zint(pos) >= 64, zint(pos) + 288 <= zint(F.T0)), kind="file")
        F.D.write(pos, rec)

    def read_entry(self, interp, pos):
        ctx = interp.ctx
        F = self.file
        ctx.oblige("file.table_entry_read_on_a_slot_boundary_inside_the_table",
                   And((zint(pos) - 64) % 288 == 0, zint(pos) >= 64, zint(pos) + 288 <= zint(F.T0)), kind="file")
        return F.D.rec(pos)


# ------------------------------------------------------------------------------------------------ contracts of callees
def c_entry_write(interp, fn, args, kw):
    """TdfEntry._write(file): appends enc_Entry(self) (288 bytes).  Raises (comment too long / not cp1252, date out of range)
    after having written the fields before the offending one."""
    ctx = interp.ctx
    e, file = args[0], args[1]
    r = rec_of(interp, e)
    npmodel.cp_axioms(ctx)
    seq = r.comment.seq
    j = z3.Const(f"cw!{ctx.uid()}", I)
    ok = And(z3.ForAll([j], z3.Implies(zbool(rng(0, j, seq.n)), npmodel.cp_enc_ok(zint(seq.get(j))))), zint(seq.n) + 1 <= 256)
    dates_ok = And(*[And(zint(r.ints[d]) >= -2**31, zint(r.ints[d]) < 2**31) for d in ("cdate", "mdate", "adate")])
    good = ctx.branch(And(ok, dates_ok), "entry-encodable")
    if isinstance(file, VHandle):
        file._check_open()
        if not file.writable:
            interp.raise_("UnsupportedOperation", "not writable")
        pos = file._use_pos()
        if not good:
            file.file.corrupt = True            # a prefix of the entry has been written
            file.file.dirty = True
            interp.writes.append((file.file, "file.partial_entry"))
            interp.raise_("ValueError", "entry cannot be encoded")
        file.write_entry(interp, pos, r)
        file.file.dirty = True
        interp.writes.append((file.file, "file.write_entry"))
        file.pos = z3.simplify(zint(pos) + 288)
        return None
    if not good:
        if isinstance(file, VBytesIO):
            file.write([APad(32)])
        interp.raise_("ValueError", "entry cannot be encoded")
    w = interp.getattr(file, "write")
    interp.call(w, [VBytes([ASub("Entry", r, ("entry", ctx.uid()), 288)])], {})
    return None


def c_entry_build(interp, fn, args, kw):
    """TdfEntry._build(file): reads 288 bytes at the current position and returns the entry they encode"""
    ctx = interp.ctx
    file = args[0]
    if not isinstance(file, VHandle):
        raise OutOfReach("TdfEntry._build from something that is not the file handle")
    file._check_open()
    pos = file._use_pos()
    r = file.read_entry(interp, pos)
    file.pos = z3.simplify(zint(pos) + 288)
    ctx.epoch += 1
    o = VObj(_entry_class(interp), epoch=ctx.epoch, label="entry@" + str(pos))
    r2 = Rec(dict(r.ints, cfrac=0, mfrac=0, afrac=0), r.comment)
    o.fields.update(_fields_of_rec(interp, r2))
    return o


class VBlockAbs:
    """an arbitrary block object as the container sees it: type, format, nBytes, dates, _write(buffer)"""
    _n = 0

    def __init__(self, interp, name="newBlock", type_term=None):
        ctx = interp.ctx
        self.name = name
        self.type = z3.Const(f"{name}.type", I) if type_term is None else type_term
        self.fmt = z3.Const(f"{name}.format", I)
        self.fmt_is_enum = z3.Const(f"{name}.format_is_an_enum_member", B)     # a caller may have stored a bare int there
        self.nb = z3.Const(f"{name}.nBytes", I)
        self.enc_ok = z3.Const(f"{name}.encodable", B)
        self.cd = VDate(z3.Const(f"{name}.cdate", I), z3.Const(f"{name}.cfrac", I))
        self.md = VDate(z3.Const(f"{name}.mdate", I), z3.Const(f"{name}.mfrac", I))
        pf = z3.Function(f"{name}.byte", I, I)
        self.payload = lambda k: pf(zint(k))
        # the dates of the block are whatever the caller set: an entry carrying one outside the 32-bit range cannot be encoded
        ctx.assume(And(self.type >= 1, self.type <= 16, self.nb >= 0, self.fmt >= 0, self.fmt < 2**31))

    def py_getattr(self, interp, name):
        if name == "type":
            return VEnum(_blocktype(interp), self.type)
        if name == "format":
            return VFormat(self.fmt, self.fmt_is_enum)
        if name == "nBytes":
            return self.nb
        if name == "creation_date":
            return self.cd
        if name == "last_modification_date":
            return self.md
        if name == "_write":
            def w(interp, a, k):
                ctx = interp.ctx
                buf = a[0]
                if not ctx.branch(self.enc_ok, "block-encodable"):
                    interp.call(interp.getattr(buf, "write"), [VBytes([APad(z3.Const(f"{self.name}.partial", I))])], {})
                    interp.raise_("ValueError", "block cannot be encoded")
                interp.call(interp.getattr(buf, "write"), [VBytes([ASub("Block", self, (self.name,), self.nb)])], {})
                return None
            return VBuiltin("Block._write", w)
        return NOATTR


class VFormat:
    def __init__(self, v, is_enum=True):
        self.v, self.is_enum = v, is_enum

    def py_getattr(self, interp, name):
        if name == "value":
            if self.is_enum is not True and not interp.ctx.branch(self.is_enum, "format-is-an-enum-member"):
                interp.raise_("AttributeError", "'int' object has no attribute 'value'")
            return self.v
        return NOATTR


class VDecoded:
    """result of block_class._build(handler, format): the decode of the bytes at a file position"""

    def __init__(self, cls, pos, fmt, file_snapshot):
        self.cls, self.pos, self.fmt, self.file = cls, pos, fmt, file_snapshot

    def py_equals(self, interp, a, b):
        """comparing decoded blocks: some boolean (their content is abstract here); block objects hold no file handle,
        so the comparison has no effect on any file (C14 / C18: block operations are pure)"""
        return interp.ctx.fresh_const("decoded_blocks_equal", B)


def c_block_build(interp, fn, args, kw):
    cls, handler = args[0], args[1]
    fmt = args[2] if len(args) > 2 else kw.get("format")
    if not isinstance(handler, VHandle):
        raise OutOfReach("block _build from something that is not the file handle")
    handler._check_open()
    return VDecoded(cls, handler._use_pos(), fmt, handler.file.snapshot())


# ------------------------------------------------------------------------------------------------ invariants (DESIGN.md 3.4)
class Inv:
    """I = ordered /\\ synced /\\ unique (and J = I /\\ compact) over (memory table M, disk table D, payload, L, N)"""

    def __init__(self, nl):
        self.nl = nl                 # number of live entries (all live entries precede all unused ones)

    def mem_fields(self, M):
        return {f: (lambda i, f=f: M.cells.ints[f](i)) for f in INT_FIELDS}


def inv_formulas(tag, N, L, nl, off, size, typ, quant=True, compact=False, fresh=None):
    """the clauses of ordered / unique / compact for one table given as functions of the slot index.
    quant=True -> closed formulas for assumptions; quant=False -> goals over fresh constants (fresh(name) makes one)."""
    T0 = 64 + 288 * zint(N)
    out = []
    if quant:
        i, j = z3.Const(f"{tag}_i", I), z3.Const(f"{tag}_j", I)
        FA = lambda vs, body: z3.ForAll(vs, zbool(body))
    else:
        i, j = fresh("i"), fresh("j")
        FA = lambda vs, body: body
    out.append((f"{tag}.live_count_in_range", And(zint(nl) >= 0, zint(nl) <= zint(N), zint(N) >= 1, zint(L) >= T0)))
    out.append((f"{tag}.live_entries_typed_sized_inside_the_data_area", FA([i], Implies(rng(0, i, nl), And(typ(i) != 0, typ(i) >= 1, typ(i) <= 16, size(i) >= 0, off(i) >= T0, off(i) + size(i) <= zint(L))))))
    out.append((f"{tag}.live_ranges_in_table_order_without_overlap", FA([i, j], Implies(And(0 <= i, i < j, j < zint(nl)), off(i) + size(i) <= off(j)))))
    out.append((f"{tag}.unused_slots_after_live_ones_have_size_zero", FA([i], Implies(rng(nl, i, N), And(typ(i) == 0, size(i) == 0)))))
    out.append((f"{tag}.unused_slots_point_at_or_after_the_end_of_live_data", FA([i, j], Implies(And(rng(nl, i, N), rng(0, j, nl)), off(i) >= off(j) + size(j)))))
    out.append((f"{tag}.unused_slots_point_into_the_data_area", FA([i], Implies(rng(nl, i, N), And(off(i) >= T0, off(i) <= zint(L))))))
    out.append((f"{tag}.at_most_one_block_per_type", FA([i, j], Implies(And(0 <= i, i < j, j < zint(nl)), typ(i) != typ(j)))))
    if compact:
        out.append((f"{tag}.compact.first_block_right_after_the_table", Implies(zint(nl) > 0, off(0) == T0)))
        out.append((f"{tag}.compact.blocks_back_to_back", FA([i], Implies(And(0 <= i, i + 1 < zint(nl)), off(i + 1) == off(i) + size(i)))))
        out.append((f"{tag}.compact.unused_slots_carry_the_end_of_data", FA([i], Implies(rng(nl, i, N), off(i) == zint(L)))))
        out.append((f"{tag}.compact.file_ends_with_the_last_block", If(zint(nl) > 0, zint(L) == off(zint(nl) - 1) + size(zint(nl) - 1), zint(L) == T0)))
    return out


def synced_formulas(tag, N, M, D, quant=True, fresh=None):
    """memory table == disk table, slot by slot (dates to the second)"""
    if quant:
        i, c = z3.Const(f"{tag}_si", I), z3.Const(f"{tag}_sc", I)
        FA = lambda vs, body: z3.ForAll(vs, zbool(body))
    else:
        i, c = fresh("slot"), fresh("chr")
        FA = lambda vs, body: body
    q = slot_pos(i)
    fs = [f for f in INT_FIELDS if not f.endswith("frac")]
    out = [(f"{tag}.synced.fields", FA([i], Implies(rng(0, i, N), And(*[eq(M.ints[f](i), D.ints[f](q)) for f in fs], eq(M.cm_len(i), D.cm_len(q)))))),
           (f"{tag}.synced.comments", FA([i, c], Implies(And(rng(0, i, N), rng(0, c, M.cm_len(i))), eq(M.cm_chr(i, c), D.cm_chr(q, c)))))]
    return out


def valid_entries_formulas(tag, N, M, quant=True, fresh=None):
    """every entry can be re-encoded: comment cp1252-encodable and shorter than its field, dates and sizes in range"""
    if quant:
        i, c = z3.Const(f"{tag}_vi", I), z3.Const(f"{tag}_vc", I)
        FA = lambda vs, body: z3.ForAll(vs, zbool(body))
    else:
        i, c = fresh("slot"), fresh("chr")
        FA = lambda vs, body: body
    return [(f"{tag}.entries_encodable.comment_length_and_dates", FA([i], Implies(rng(0, i, N), And(M.cm_len(i) >= 0, M.cm_len(i) <= 255, *[And(M.ints[d](i) >= -2**31, M.ints[d](i) < 2**31) for d in ("cdate", "mdate", "adate")],
                                                                                                M.ints["format"](i) >= 0, M.ints["format"](i) < 2**31)))),
            (f"{tag}.entries_encodable.comment_characters", FA([i, c], Implies(And(rng(0, i, N), rng(0, c, M.cm_len(i))), And(npmodel.cp_enc_ok(M.cm_chr(i, c)), M.cm_chr(i, c) != 0))))]
