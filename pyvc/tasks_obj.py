"""Object engine tasks: C14 (equality), C15 (channel maps), C16 (track lists), C18 (lookup), C19 (constructors), C20 (freshness)."""
import z3

from . import npmodel
from .codec import CONTRACTS, decoded, expect_eq
from .core import (And, B, I, If, Implies, Not, Or, OutOfReach, PyRaise, Seq, VEnum, VFloat, VList, VObj, VProperty, VStr, conc, eq, is_bool,
                   is_int, rng, zbool, zint)
from .interp import EXC, FuncModel, T_LIST, T_TUPLE, T_NDARRAY
from .loops import MixedElem, VIter
from .npmodel import VDType, VNd, VShape
from .symlayout import SPECS, Sym, sym_str
from .tasks_codec import _setup, _fn
from .tasks_prims import _outcome, sym_text
from .verify import Task

LOOKUP = {"Data3D": "_tracks", "ForceTorque3D": "_tracks", "EMG": "_signals", "Events": "events"}
ITEM_OF = {"Data3D": "MarkerTrack", "ForceTorque3D": "ForceTorqueTrack", "EMG": "EMGTrack", "Events": "Event"}


def _method(interp, name, attr):
    cls = SPECS[name].klass(interp)
    f, _ = cls.lookup(attr)
    if isinstance(f, VProperty):
        return f
    return f


def _resolve(ctx, v):
    """element of a symbolic list that may be a MixedElem: pick the alternative the path condition entails"""
    while isinstance(v, MixedElem):
        if ctx.entails(v.c):
            v = v.x
        elif ctx.entails(Not(v.c)):
            v = v.y
        else:
            raise OutOfReach("undetermined mixed element")
    return v


def _no_writes(interp, tag, before):
    new = interp.writes[before:]
    interp.ctx.oblige(f"{tag}.changes_nothing({len(new)} writes)", len(new) == 0, kind="frame")


# ================================================================================================ C18
def c18_tasks():
    out = []
    for name, fld in LOOKUP.items():
        def t_len_iter(interp, name=name, fld=fld):
            ctx = interp.ctx
            sp, o = _setup(interp, name, SPECS[name].variants[0])
            items = o.fields[fld]
            w0 = len(interp.writes)
            f = _method(interp, name, "__len__")
            interp.inline_only.add(f.qualname)
            ctx.oblige(f"C18.{name}.len_is_number_of_items", eq(interp.call(f, [o], {}), items.length), kind="C18")
            g = _method(interp, name, "__iter__")
            interp.inline_only.add(g.qualname)
            it = interp.call(g, [o], {})
            ctx.oblige(f"C18.{name}.iteration_is_over_the_item_list", isinstance(it, VIter) and it.inner is items, kind="C18")
            _no_writes(interp, f"C18.{name}.len_iter", w0)
        out.append(Task(f"C18.{name}.len_iter", SPECS[name].cls + ".__len__", ["C18"], t_len_iter, kind="obj"))

        def t_index(interp, name=name, fld=fld):
            ctx = interp.ctx
            sp, o = _setup(interp, name, SPECS[name].variants[0])
            items = o.fields[fld]
            n = items.length
            i = z3.Const("key_i", I)
            w0 = len(interp.writes)
            f = _method(interp, name, "__getitem__")
            interp.inline_only.add(f.qualname)
            oc = _outcome(interp, lambda: interp.call(f, [o, i], {}))
            inr = And(i >= -zint(n), i < zint(n))
            if oc[0] == "raise":
                ctx.oblige(f"C18.{name}.index.IndexError_only_out_of_range({oc[1].cls.name})", And(oc[1].cls.is_subclass(EXC["IndexError"]), Not(inr)), kind="C18")
            else:
                r = _resolve(ctx, oc[1])
                ctx.oblige(f"C18.{name}.index.in_range_when_returning", inr, kind="C18")
                ok = isinstance(r, VObj) and hasattr(r, "key") and r.key[0] == items.key[0] + "" and len(r.key) == len(items.key) + 1
                ctx.oblige(f"C18.{name}.index.returns_an_item_of_the_block", bool(ok), kind="C18")
                if ok:
                    ctx.oblige(f"C18.{name}.index.returns_the_i_th_item", eq(r.key[-1], If(i < 0, i + zint(n), i)), kind="C18")
            _no_writes(interp, f"C18.{name}.index", w0)
        out.append(Task(f"C18.{name}.index", SPECS[name].cls + ".__getitem__", ["C18"], t_index, kind="obj"))

        def t_label(interp, name=name, fld=fld):
            ctx = interp.ctx
            sp, o = _setup(interp, name, SPECS[name].variants[0])
            items = o.fields[fld]
            n = items.length
            key = sym_text(ctx, "key")
            w0 = len(interp.writes)
            c = _method(interp, name, "__contains__")
            interp.inline_only.add(c.qualname)
            cont = interp.truth_term(interp.call(c, [o, key], {}))
            f = _method(interp, name, "__getitem__")
            interp.inline_only.add(f.qualname)
            oc = _outcome(interp, lambda: interp.call(f, [o, key], {}))
            j = ctx.fresh_const("other")
            lab = lambda k: interp.str_eq(items.at(k).fields["label"], key)
            if oc[0] == "raise":
                ctx.oblige(f"C18.{name}.label.raises_KeyError({oc[1].cls.name})", oc[1].cls.is_subclass(EXC["KeyError"]), kind="C18")
                ctx.oblige(f"C18.{name}.label.KeyError_only_if_no_item_has_the_label", Implies(rng(0, j, n), Not(lab(j))), kind="C18")
                ctx.oblige(f"C18.{name}.label.not_contained_when_lookup_fails", Not(cont), kind="C18")
            else:
                r = _resolve(ctx, oc[1])
                ok = isinstance(r, VObj) and hasattr(r, "key") and r.key[0] == items.key[0] and len(r.key) == len(items.key) + 1
                ctx.oblige(f"C18.{name}.label.returns_an_item_of_the_block", bool(ok), kind="C18")
                if ok:
                    m = r.key[-1]
                    ctx.oblige(f"C18.{name}.label.returned_item_has_the_label", And(rng(0, m, n), lab(m)), kind="C18")
                    ctx.oblige(f"C18.{name}.label.returned_item_is_the_first_with_the_label", Implies(And(0 <= j, j < m), Not(lab(j))), kind="C18")
                ctx.oblige(f"C18.{name}.label.contained_when_lookup_succeeds", cont, kind="C18")
            _no_writes(interp, f"C18.{name}.label", w0)
        out.append(Task(f"C18.{name}.label", SPECS[name].cls + ".__getitem__+__contains__", ["C18"], t_label, kind="obj"))

        def t_keytype(interp, name=name, fld=fld):
            ctx = interp.ctx
            sp, o = _setup(interp, name, SPECS[name].variants[0])
            f = _method(interp, name, "__getitem__")
            interp.inline_only.add(f.qualname)
            w0 = len(interp.writes)
            for desc, key in (("None", None), ("float", VFloat(z3.Const("kf", I), "py")), ("tuple", (1,)), ("bytes", b"a"), ("item", o.fields[fld].at(z3.Const("kk", I)))):
                oc = _outcome(interp, lambda: interp.call(f, [o, key], {}))
                ctx.oblige(f"C18.{name}.keytype.{desc}_raises_TypeError", oc[0] == "raise" and oc[1].cls.is_subclass(EXC["TypeError"]), kind="C18")
            c = _method(interp, name, "__contains__")
            interp.inline_only.add(c.qualname)
            for desc, key in (("None", None), ("float", VFloat(z3.Const("kf2", I), "py")), ("tuple", (1,)), ("bytes", b"a"), ("int", z3.Const("ki2", I))):
                oc = _outcome(interp, lambda: interp.call(c, [o, key], {}))
                ctx.oblige(f"C18.{name}.keytype.membership_of_{desc}_raises_TypeError", oc[0] == "raise" and oc[1].cls.is_subclass(EXC["TypeError"]), kind="C18")
            _no_writes(interp, f"C18.{name}.keytype", w0)
        out.append(Task(f"C18.{name}.keytype", SPECS[name].cls + ".__getitem__", ["C18"], t_keytype, kind="obj"))
    return out


# ================================================================================================ C16 / C20 (setters)
class DynTrack(VObj):
    """an object that is a track of class ``cls`` iff ``is_track`` (symbolic): models arbitrary objects in a list"""
    pass


def _dyn_item(interp, item_layout, path, idx, nframes, is_track):
    o = SPECS[item_layout].make(interp, path, idx, [], N=nframes)
    o.__class__ = DynTrack
    klass = SPECS[item_layout].klass(interp)
    o.dyn_isinstance = lambda cls: (is_track if cls is klass else (False if not klass.is_subclass(cls) else is_track))
    # an arbitrary object: a track is truthy; what is not a track may be anything, None / 0 / "" / [] included
    falsy = z3.Function(f"{path}.is_falsy", *([I] * len(idx)), B)(*[zint(i) for i in idx]) if idx else z3.Const(f"{path}.is_falsy", B)
    o.py_truth = lambda interp: Or(is_track, Not(falsy))
    return o


ADD = {"Data3D": ("add_track", "_tracks", "MarkerTrack", "nFrames"), "ForceTorque3D": ("add_track", "_tracks", "ForceTorqueTrack", "nFrames"),
       "EMG": ("addSignal", "_signals", "EMGTrack", "nSamples")}


def c16_tasks():
    out = []
    for name, (add, fld, item, nattr) in ADD.items():
        def t_add(interp, name=name, add=add, fld=fld, item=item, nattr=nattr):
            ctx = interp.ctx
            sp, o = _setup(interp, name, SPECS[name].variants[0])
            lst = o.fields[fld]
            n0 = lst.length
            nt = z3.Const("new_track_frames", I)
            ctx.assume(nt >= 0)
            is_track = z3.Const("new_is_track", B)
            x = _dyn_item(interp, item, "newitem", (), nt, is_track)
            f = _method(interp, name, add)
            interp.inline_only.add(f.qualname)
            w0 = len(interp.writes)
            n_block = o.fields[nattr]                  # the block's own frame count BEFORE the call
            oc = _outcome(interp, lambda: interp.call(f, [o, x], {}))
            good = And(is_track, eq(nt, n_block))
            ctx.oblige(f"C16.{name}.{add}.block_frame_count_unchanged", o.fields[nattr] is n_block or eq(o.fields[nattr], n_block), kind="C16")
            if oc[0] == "raise":
                ctx.oblige(f"C16.{name}.{add}.refuses_only_invalid_items({oc[1].cls.name})", Not(good), kind="C16")
                _no_writes(interp, f"C16.{name}.{add}.refused_add", w0)
            else:
                ctx.oblige(f"C16.{name}.{add}.accepts_only_tracks_of_the_block_length", good, kind="C16")
                ctx.oblige(f"C16.{name}.{add}.length_grows_by_one", eq(o.fields[fld].length, n0 + 1), kind="C16")
                last = _resolve(ctx, o.fields[fld].elem(n0))
                ctx.oblige(f"C16.{name}.{add}.new_item_is_last", last is x, kind="C16")
                k = ctx.fresh_const("old")
                ctx.solver.push()
                ctx.solver.add(zbool(rng(0, k, n0)))
                try:
                    e = _resolve(ctx, o.fields[fld].elem(k))
                finally:
                    ctx.solver.pop()
                ctx.oblige(f"C16.{name}.{add}.old_items_kept", Implies(rng(0, k, n0), eq(e.key[-1], k) if hasattr(e, "key") and e.key[0] == lst.key[0] else False), kind="C16")
        out.append(Task(f"C16.{name}.{add}", SPECS[name].cls + "." + add, ["C16"], t_add, kind="obj"))
    def t_add_incoherent(interp):
        """a force/torque track whose arrays no longer have one common length (public attributes were reassigned): whatever
        add_track decides, a track it accepts counts -- by its own nFrames -- as many frames as the block"""
        ctx = interp.ctx
        name, (add, fld, item, nattr) = "ForceTorque3D", ADD["ForceTorque3D"]
        sp, o = _setup(interp, name, SPECS[name].variants[0])
        nt, nt2 = z3.Const("new_track_frames", I), z3.Const("other_arrays_frames", I)
        ctx.assume(And(nt >= 0, nt2 >= 0))
        x = _dyn_item(interp, item, "newitem", (), nt, True)
        for c in ("application_point", "force", "torque"):
            probe = z3.Const(f"regrown_{c}", B)
            src = x.fields[c]
            x.fields[c] = VNd((If(probe, nt2, nt),) + tuple(src.shape[1:]), src.dt, src.get, label=src.label)
        f = _method(interp, name, add)
        interp.inline_only.add(f.qualname)
        n_block = o.fields[nattr]
        oc = _outcome(interp, lambda: interp.call(f, [o, x], {}))
        if oc[0] != "raise":
            counted = _outcome(interp, lambda: interp.getattr(x, "nFrames"))
            if counted[0] == "raise":
                ctx.oblige("C16.ForceTorque3D.add_track[incoherent].track_frame_count_defined", False, kind="C16")
            else:
                ctx.oblige("C16.ForceTorque3D.add_track[incoherent].accepted_track_counts_the_block_length", eq(npmodel.as_int(interp, counted[1]), n_block), kind="C16")
    out.append(Task("C16.ForceTorque3D.add_track[incoherent]", SPECS["ForceTorque3D"].cls + ".add_track", ["C16"], t_add_incoherent, kind="obj"))
    for name in ("Data3D", "ForceTorque3D"):
        add, fld, item, nattr = ADD[name]

        def t_assign(interp, name=name, fld=fld, item=item, nattr=nattr):
            """tracks = values: installs exactly the list or raises leaving the previous list object and its content in place"""
            ctx = interp.ctx
            sp, o = _setup(interp, name, SPECS[name].variants[0])
            old = o.fields[fld]
            old_state = (old.items, old.n, old.at)
            nv = z3.Const("nvalues", I)
            ctx.assume(nv >= 0)
            fr = z3.Function("value_frames", I, I)
            tr = z3.Function("value_is_track", I, B)
            vals = VList(None, nv, lambda k: _dyn_item(interp, item, "values", (zint(k),), fr(zint(k)), tr(zint(k))), label="values")
            vals.key = ("values",)
            cls = SPECS[name].klass(interp)
            prop, _ = cls.lookup("tracks")
            f = prop.fset
            interp.inline_only.add(f.qualname)
            epoch0 = ctx.epoch
            n_block = o.fields[nattr]                  # the block's own frame count BEFORE the call
            oc = _outcome(interp, lambda: interp.call(f, [o, vals], {}))
            j = ctx.fresh_const("pos")
            good = lambda k: And(tr(k), fr(k) == n_block)
            ctx.oblige(f"C16.{name}.assign.block_frame_count_unchanged", o.fields[nattr] is n_block or eq(o.fields[nattr], n_block), kind="C16")
            now = o.fields[fld]
            if oc[0] == "raise":
                ctx.oblige(f"C16.{name}.assign.raises_only_if_some_element_is_invalid", z3.Exists([j], zbool(And(rng(0, j, nv), Not(good(j))))), kind="C16")
                ctx.oblige(f"C16.{name}.assign.rollback_restores_the_previous_list_object", now is old, kind="C16")
                ctx.oblige(f"C16.{name}.assign.rollback_previous_list_untouched", (old.items, old.n, old.at) == old_state and not any(w[0] is old for w in interp.writes), kind="C16")
            else:
                ctx.oblige(f"C16.{name}.assign.accepts_only_if_all_elements_valid", Implies(rng(0, j, nv), good(j)), kind="C16")
                ctx.oblige(f"C16.{name}.assign.installs_a_list", isinstance(now, VList), kind="C16")
                if isinstance(now, VList):
                    ctx.oblige(f"C16.{name}.assign.same_length", eq(now.length, nv), kind="C16")
                    ctx.solver.push()
                    ctx.solver.add(zbool(rng(0, j, nv)))
                    try:
                        e = _resolve(ctx, now.elem(j))
                    finally:
                        ctx.solver.pop()
                    ok = isinstance(e, VObj) and hasattr(e, "key") and e.key[0] == "values"
                    ctx.oblige(f"C16.{name}.assign.same_elements_in_order", Implies(rng(0, j, nv), eq(e.key[-1], j) if ok else False), kind="C16")
                    ctx.oblige(f"C20.{name}.assign.installed_list_is_a_new_object", now is not vals and now is not old and now.epoch > epoch0, kind="C20")
        out.append(Task(f"C16.{name}.assign_tracks", SPECS[name].cls + ".tracks.setter", ["C16", "C20"], t_assign, kind="obj"))
    return out


# ================================================================================================ C20
CONTAINERS = {"Data3D": ["_tracks"], "ForceTorque3D": ["_tracks"], "EMG": ["_signals", "_emgMap"], "Events": ["events"], "OpticalSetup": ["channels"],
              "PlatformsCalibration": ["_platforms", "_platformMap"], "PlatformsData": ["_platforms", "_plat_map"]}


def _ctor_args(interp, name):
    """minimal valid positional arguments of the block constructors (no item lists)"""
    ctx = interp.ctx
    fz = lambda n: VFloat(z3.Const(n, I), "f4")
    arr = lambda n, shp: VNd(shp, VDType("f4"), (lambda *i, n=n: z3.Function(n, *([I] * len(shp)), I)(*[zint(x) for x in i])))
    N = z3.Const("ctor_nFrames", I)
    if name == "Data3D":
        return [z3.Const("freq", I), N, arr("vol", (3,)), arr("rot", (3, 3)), arr("tr", (3,))]
    if name == "ForceTorque3D":
        return [z3.Const("freq", I), N, arr("vol", (3,)), arr("rot", (3, 3)), arr("tr", (3,))]
    if name == "EMG":
        return [z3.Const("freq", I), N]
    if name == "PlatformsData":
        return [fz("st"), z3.Const("freq", I), N]
    return []


def c20_tasks():
    out = []
    for name, fields in CONTAINERS.items():
        def t_ctor(interp, name=name, fields=fields):
            ctx = interp.ctx
            npmodel.float_axioms(ctx)
            cls = SPECS[name].klass(interp)
            init, _ = cls.lookup("__init__")
            interp.inline_only.add(init.qualname)
            epoch0 = ctx.epoch
            args = _ctor_args(interp, name)
            a = interp.instantiate(cls, list(args), {})
            b = interp.instantiate(cls, list(args), {})
            for f in fields:
                for tag, obj in (("first", a), ("second", b)):
                    try:
                        v = interp.getattr(obj, f)
                    except PyRaise:
                        ctx.oblige(f"C20.{name}.ctor.{f}.exists", False, kind="C20")
                        continue
                    ctx.oblige(f"C20.{name}.ctor.{f}.{tag}_instance_gets_a_container_created_by_this_call", isinstance(v, (VList, VNd)) and v.epoch > epoch0, kind="C20")
                    if isinstance(v, VList):
                        ctx.oblige(f"C20.{name}.ctor.{f}.{tag}_instance_starts_empty", eq(v.length, 0), kind="C20")
                try:
                    ctx.oblige(f"C20.{name}.ctor.{f}.two_instances_do_not_share_it", interp.getattr(a, f) is not interp.getattr(b, f), kind="C20")
                except PyRaise:
                    pass
        out.append(Task(f"C20.{name}.constructor", SPECS[name].cls + ".__init__", ["C20"], t_ctor, kind="obj"))

        def t_build(interp, name=name, fields=fields):
            ctx = interp.ctx
            from .tasks_codec import BUILD_ATTR
            from .symlayout import layout_atoms
            from .npmodel import VInFile
            from .stream import InStream
            sp, o = _setup(interp, name, SPECS[name].variants[0])
            f = _fn(interp, name, "_build")
            interp.inline_only.add(f.qualname)
            res = []
            for rep in range(2):
                epoch0 = ctx.epoch
                stream = interp.register(VInFile(InStream(layout_atoms(ctx, name, sp.view(o), reading=True))))
                oc = _outcome(interp, lambda: interp.call(f, [stream] + sp.build_args(o), {}))
                if oc[0] == "raise":
                    ctx.oblige(f"C20.{name}.decode.no_exception", False, kind="C20")
                    return
                res.append(oc[1])
                for fl in fields:
                    v = oc[1].fields.get(fl)
                    ctx.oblige(f"C20.{name}.decode.{fl}.container_created_by_this_call", isinstance(v, (VList, VNd)) and v.epoch > epoch0, kind="C20")
            for fl in fields:
                ctx.oblige(f"C20.{name}.decode.{fl}.two_decodes_do_not_share_it", res[0].fields.get(fl) is not res[1].fields.get(fl), kind="C20")
        out.append(Task(f"C20.{name}.decode", SPECS[name].cls + "._build", ["C20"], t_build, kind="obj"))

    def t_event(interp):
        ctx = interp.ctx
        mod = interp.loader.import_module(interp, "basictdf.tdfEvents")
        cls = mod.ns["Event"]
        init, _ = cls.lookup("__init__")
        interp.inline_only.add(init.qualname)
        lab = sym_text(ctx, "evl")
        epoch0 = ctx.epoch
        a = interp.instantiate(cls, [lab], {})
        b = interp.instantiate(cls, [lab], {})
        ctx.oblige("C20.Event.default_values_not_shared", a.fields["values"] is not b.fields["values"], kind="C20")
        ctx.oblige("C20.Event.default_values_created_by_this_call", getattr(a.fields["values"], "epoch", 0) > epoch0, kind="C20")
    out.append(Task("C20.Event.constructor", "basictdf.tdfEvents.Event.__init__", ["C20"], t_event, kind="obj"))
    return out


# ================================================================================================ C19
def _sym_array(ctx, name):
    """ndarray of any rank and shape"""
    r = z3.Const(name + ".rank", I)
    d = z3.Function(name + ".dim", I, I)
    ctx.assume(r >= 0)
    j = z3.Const(name + ".j", I)
    ctx.assume(z3.ForAll([j], d(j) >= 0))
    nd = VNd((), VDType("f8"), lambda *i: z3.IntVal(0))
    nd.symshape = VShape(r, lambda i: d(zint(i)))
    return nd, r, d


def _kinds(ctx, name):
    """(kind, value, facts) for every kind of object the property lists"""
    nd, r, d = _sym_array(ctx, name)
    n = z3.Const(name + ".len", I)
    ctx.assume(n >= 0)
    el = z3.Function(name + ".el", I, I)
    yield "ndarray", nd, dict(rank=r, dim=d)
    yield "list", VList(None, n, lambda k: el(zint(k))), dict(len=n)
    yield "tuple", SymTuple(n, lambda k: el(zint(k))), dict(len=n)
    yield "None", None, {}
    yield "str", sym_text(ctx, name + ".s"), {}
    yield "int", z3.Const(name + ".i", I), {}
    yield "float", VFloat(z3.Const(name + ".f", I), "py"), {}


class SymTuple:
    """tuple of symbolic length"""

    py_type = "tuple"

    def __init__(self, n, at):
        self.n, self.at = n, at

    def py_len(self, interp):
        return self.n


def shape_is(facts, shp):
    return And(facts["rank"] == len(shp), *[facts["dim"](i) == s for i, s in enumerate(shp)])


KINDS = ["ndarray", "list", "tuple", "None", "str", "int", "float"]


def _kind(ctx, name, kind):
    for k, val, facts in _kinds(ctx, name):
        if k == kind:
            return val, facts
    raise KeyError(kind)


def _vp(interp):
    ctx = interp.ctx
    assume = []
    vp = SPECS["Viewport"].make(interp, "vp", (), assume)
    for a in assume:
        ctx.assume(a)
    return vp


def _site_task(out, label, qual, mkargs, pos, kind, should_fn, what):
    """one validated constructor argument x one kind of object: accepted <=> the property's predicate"""
    def run(interp):
        ctx = interp.ctx
        mod, cn = qual.rsplit(".", 1)
        cls = interp.loader.import_module(interp, mod).ns[cn]
        init, _ = cls.lookup("__init__")
        interp.inline_only.add(init.qualname)
        vp = _vp(interp)
        if kind == "CameraViewPort":
            val, facts = vp, {}
        else:
            val, facts = _kind(ctx, "arg", kind)
        args = mkargs(interp, vp)
        args[pos] = val
        ctx.epoch += 1
        oc = _outcome(interp, lambda: interp.instantiate(cls, args, {}))
        should = should_fn(kind, facts)
        tag = f"C19.{label}.{kind}"
        if oc[0] == "raise":
            ctx.oblige(f"{tag}.refused_only_if_not_{what}({oc[1].cls.name})", Not(should), kind="C19")
        else:
            ctx.oblige(f"{tag}.accepted_only_if_{what}", should, kind="C19")
    out.append(Task(f"C19.{label}.{kind}", qual + ".__init__", ["C19"], run, kind="obj"))


def c19_tasks():
    out = []
    f4 = lambda n, shp: VNd(shp, VDType("f4"), lambda *i: z3.Function("g_" + n, *([I] * len(shp)), I)(*[zint(x) for x in i]))
    f8 = lambda n, shp: VNd(shp, VDType("f8"), lambda *i: z3.Function("g_" + n, *([I] * len(shp)), I)(*[zint(x) for x in i]))
    arr_only = lambda shp: (lambda kind, facts: shape_is(facts, shp) if kind == "ndarray" else False)
    for blockname, qual in (("Data3D", "basictdf.tdfData3D.Data3D"), ("ForceTorque3D", "basictdf.tdfForce3D.ForceTorque3D")):
        mk = lambda interp, vp: [z3.Const("freq", I), z3.Const("nF", I), f4("vol", (3,)), f4("rot", (3, 3)), f4("tr", (3,))]
        for which, pos, shp in (("volume", 2, (3,)), ("rotationMatrix", 3, (3, 3)), ("translationVector", 4, (3,))):
            for kind in KINDS:
                _site_task(out, f"{blockname}.{which}", qual, mk, pos, kind, arr_only(shp), f"an_ndarray_of_shape_{shp}")

    def mkcal(interp, vp):
        mod = interp.loader.import_module(interp, "basictdf.tdfCalibrationData")
        dm = mod.ns["DistorsionModel"].members["KaliDistorsion"]
        cmap = VNd((z3.Const("ncam", I),), VDType("i2"), lambda i: z3.Function("cmap", I, I)(zint(i)))
        interp.ctx.assume(cmap.shape[0] >= 0)
        return [dm, f4("vol", (3,)), f4("rot", (3, 3)), f4("tr", (3,)), cmap, VList([])]
    for which, pos, shp in (("calibration_volume_size", 1, (3,)), ("calibration_volume_rotation_matrix", 2, (3, 3)), ("calibration_volume_translation_vector", 3, (3,))):
        for kind in KINDS:
            _site_task(out, f"Calibration.{which}", "basictdf.tdfCalibrationData.CalibrationDataBlock", mkcal, pos, kind, arr_only(shp), f"an_ndarray_of_shape_{shp}")
    SL = [("rotation_matrix", (3, 3)), ("translation_vector", (3,)), ("focus", (2,)), ("optical_center", (2,)), ("radial_distortion", (2,)), ("decentering", (2,)), ("thin_prism", (2,))]
    mksl = lambda interp, vp: [f8(nm, s) for nm, s in SL] + [vp]
    for pos, (which, shp) in enumerate(SL):
        for kind in KINDS:
            _site_task(out, f"SeelabCamera.{which}", "basictdf.tdfCalibrationData.SeelabCameraData", mksl, pos, kind, arr_only(shp), f"an_ndarray_of_shape_{shp}")
    okvp = lambda interp, vp: [VNd((2,), VDType("i4"), lambda i: z3.Function("okvp", I, I)(zint(i))) for _ in range(2)]

    def pair(kind, facts):
        if kind == "ndarray":
            return shape_is(facts, (2,))
        if kind in ("list", "tuple"):
            return facts["len"] == 2
        return False
    for which, pos in (("origin", 0), ("size", 1)):
        for kind in KINDS:
            _site_task(out, f"Viewport.{which}", "basictdf.tdfTypes.CameraViewPort", okvp, pos, kind, pair, "a_two_element_list_tuple_or_array")
    vpok = lambda kind, facts: True if kind == "CameraViewPort" else (shape_is(facts, (2, 2)) if kind == "ndarray" else False)
    for label, qual, mk, pos in (("SeelabCamera.view_port", "basictdf.tdfCalibrationData.SeelabCameraData", mksl, 7),
                                 ("BTSCamera.view_port", "basictdf.tdfCalibrationData.BTSCameraData",
                                  lambda interp, vp: [f8("r", (3, 3)), f8("t", (3,)), f8("f", (2,)), f8("c", (2,)), f8("x", (70,)), f8("y", (70,)), vp], 6),
                                 ("OpticalChannel.camera_viewport", "basictdf.tdfOpticalSystem.OpticalChannelData",
                                  lambda interp, vp: [z3.Const("lci", I), sym_text(interp.ctx, "ln"), sym_text(interp.ctx, "ct"), sym_text(interp.ctx, "cn"), vp], 4)):
        for kind in KINDS + ["CameraViewPort"]:
            _site_task(out, label, qual, mk, pos, kind, vpok, "a_CameraViewPort_or_2x2_array")

    def t_coupled(interp):
        ctx = interp.ctx
        mod = interp.loader.import_module(interp, "basictdf.tdfForce3D")
        cls = mod.ns["ForceTorqueTrack"]
        init, _ = cls.lookup("__init__")
        interp.inline_only.add(init.qualname)
        arrs = [_sym_array(ctx, nm) for nm in ("ap", "force", "torque")]
        oc = _outcome(interp, lambda: interp.instantiate(cls, [sym_text(ctx, "lab")] + [a[0] for a in arrs], {}))
        (a, ra, da), (f, rf, df), (t, rt, dt) = arrs
        j = z3.Const("cj", I)
        same = lambda r1, d1, r2, d2: And(r1 == r2, z3.ForAll([j], z3.Implies(z3.And(0 <= j, j < r1), d1(j) == d2(j))))
        should = And(ra == 2, da(1) == 3, same(ra, da, rf, df), same(ra, da, rt, dt))
        if oc[0] == "raise":
            ctx.oblige("C19.ForceTorqueTrack.refused_only_if_shapes_are_not_three_equal_(n,3)", Not(should), kind="C19")
        else:
            ctx.oblige("C19.ForceTorqueTrack.accepted_only_if_three_equal_(n,3)_arrays", should, kind="C19")
    out.append(Task("C19.ForceTorqueTrack.coupled_arrays", "basictdf.tdfForce3D.ForceTorqueTrack.__init__", ["C19"], t_coupled, kind="obj"))

    def t_event(kind_name):
        def run(interp):
            """Event(label, values, type): refuses non-iterables and more than one value for a single event"""
            ctx = interp.ctx
            mod = interp.loader.import_module(interp, "basictdf.tdfEvents")
            cls = mod.ns["Event"]
            init, _ = cls.lookup("__init__")
            interp.inline_only.add(init.qualname)
            ty = mod.ns["EventsDataType"].members[kind_name]
            n = z3.Const("nvals", I)
            ctx.assume(n >= 0)
            for desc, val, iterable, cnt in (("f4_array", VNd((n,), VDType("f4"), lambda i: z3.Function("ev", I, I)(zint(i))), True, n), ("None", None, False, 0),
                                             ("int", z3.Const("evi", I), False, 0), ("float", VFloat(z3.Const("evf", I), "py"), False, 0)):
                oc = _outcome(interp, lambda: interp.instantiate(cls, [sym_text(ctx, "lab" + desc), val, ty], {}))
                should = And(iterable, Or(kind_name != "singleEvent", zint(cnt) <= 1))
                if oc[0] == "raise":
                    ctx.oblige(f"C19.Event[{kind_name}].{desc}.refused_only_if_not_iterable_or_too_many_values", Not(should), kind="C19")
                else:
                    ctx.oblige(f"C19.Event[{kind_name}].{desc}.accepted_only_if_iterable_and_at_most_one_value_for_a_single_event", should, kind="C19")
        return Task(f"C19.Event[{kind_name}]", "basictdf.tdfEvents.Event.__init__", ["C19"], run, kind="obj")
    out.append(t_event("singleEvent"))
    out.append(t_event("eventSequence"))
    return out


# ================================================================================================ C15
CHAN = {"EMG": dict(map="_emgMap", items="_signals", item="EMGTrack", add="addSignal", needN=True),
        "PlatformsCalibration": dict(map="_platformMap", items="_platforms", item="PlatformInfo", add="add_platform", needN=False),
        "PlatformsData": dict(map="_plat_map", items="_platforms", item="PlatformData", add="add_platform", needN=True)}


def _item_index(ctx, lst_key, e):
    """index term k such that element e is the original item k of the list with this key (or None)"""
    e = _resolve(ctx, e)
    if isinstance(e, VObj) and hasattr(e, "key") and e.key[0] == lst_key[0] and len(e.key) == len(lst_key) + 1:
        return e.key[-1]
    return None


def _pairs_goals(interp, tag, o, cfg, n0, old_map, old_key, new_len, map_src, item_src, new_item=None, new_chan=None):
    """obligations describing the (channel, item) pairs after an operation.
    map_src(k) / item_src(k): expected ORIGINAL index of the pair now at position k (None = the new pair)"""
    ctx = interp.ctx
    mp, items = o.fields[cfg["map"]], o.fields[cfg["items"]]
    ctx.oblige(f"{tag}.channel_list_is_a_list", isinstance(mp, VList), kind="C15")
    ctx.oblige(f"{tag}.channel_list_length", eq(mp.length, new_len), kind="C15")
    ctx.oblige(f"{tag}.item_list_length", eq(items.length, new_len), kind="C15")
    k = ctx.fresh_const("pair")
    ctx.solver.push()
    ctx.solver.add(zbool(rng(0, k, new_len)), zbool(eq(mp.length, new_len)), zbool(eq(items.length, new_len)))
    try:
        src = map_src(k)
        got_ch = mp.elem(k)
        got_item = _resolve(ctx, items.elem(k)) if not isinstance(items.elem(k), MixedElem) else items.elem(k)
    finally:
        ctx.solver.pop()
    isnew = src[0]          # Bool: position k holds the new pair
    orig = src[1]           # original index otherwise
    ctx.oblige(f"{tag}.surviving_channels_unchanged", Implies(And(rng(0, k, new_len), Not(isnew)), eq(npmodel.as_int(interp, got_ch), old_map(orig))), kind="C15")
    if new_chan is not None:
        ctx.oblige(f"{tag}.new_channel_at_its_position", Implies(And(rng(0, k, new_len), isnew), eq(npmodel.as_int(interp, got_ch), new_chan)), kind="C15")
    # items: identity by key
    def item_goal(e):
        if isinstance(e, MixedElem):
            return If(e.c, item_goal(e.x), item_goal(e.y))
        if new_item is not None and e is new_item:
            return isnew
        idx = _item_index(ctx, old_key, e)
        if idx is None:
            return False
        return And(Not(isnew), eq(idx, orig))
    ctx.oblige(f"{tag}.surviving_items_keep_their_channel_position", Implies(rng(0, k, new_len), item_goal(got_item)), kind="C15")
    i, j = ctx.fresh_const("ci"), ctx.fresh_const("cj")
    ctx.oblige(f"{tag}.channels_unique", Implies(And(0 <= i, i < j, j < zint(new_len)), Not(eq(npmodel.as_int(interp, mp.elem(i)), npmodel.as_int(interp, mp.elem(j))))), kind="C15")


def c15_tasks():
    out = []
    for name, cfg in CHAN.items():
        for mode in ("auto", "explicit"):
            def t_add(interp, name=name, cfg=cfg, mode=mode):
                ctx = interp.ctx
                sp, o = _setup(interp, name, SPECS[name].variants[0])
                mp, items = o.fields[cfg["map"]], o.fields[cfg["items"]]
                n0 = mp.length
                old_map = mp.at
                old_key = items.key
                N = o.fields.get("nSamples", o.fields.get("n_frames"))
                kw = dict(N=N) if cfg["needN"] else {}
                x = SPECS[cfg["item"]].make(interp, "newitem", (), [], **kw)
                ch = None if mode == "auto" else z3.Const("new_channel", I)
                f = _method(interp, name, cfg["add"])
                interp.inline_only.add(f.qualname)
                w0 = len(interp.writes)
                oc = _outcome(interp, lambda: interp.call(f, [o, x, ch], {}))
                j = ctx.fresh_const("m")
                taken = z3.Exists([j], z3.And(0 <= j, j < zint(n0), old_map(j) == ch)) if ch is not None else False
                tag = f"C15.{name}.add[{mode}]"
                if oc[0] == "raise":
                    ctx.oblige(f"{tag}.refused_only_if_explicit_channel_taken({oc[1].cls.name})", And(taken, oc[1].cls.is_subclass(EXC["ValueError"])), kind="C15")
                    _no_writes(interp, tag + ".refused", w0)
                    return
                ctx.oblige(f"{tag}.taken_channel_is_refused", Not(taken), kind="C15")
                newch = npmodel.as_int(interp, o.fields[cfg["map"]].elem(n0)) if isinstance(o.fields[cfg["map"]], VList) else None
                if ch is None and newch is not None:
                    ctx.oblige(f"{tag}.automatic_channel_not_in_use", Implies(rng(0, j, n0), Not(eq(old_map(j), newch))), kind="C15")
                _pairs_goals(interp, tag, o, cfg, n0, old_map, old_key, n0 + 1, lambda k: (eq(zint(k), zint(n0)), k), None, new_item=x, new_chan=ch if ch is not None else newch)
            out.append(Task(f"C15.{name}.add[{mode}]", SPECS[name].cls + "." + cfg["add"], ["C15"], t_add, kind="obj"))

    def t_remove_signal(interp):
        ctx = interp.ctx
        name, cfg = "EMG", CHAN["EMG"]
        sp, o = _setup(interp, name, None)
        mp, items = o.fields[cfg["map"]], o.fields[cfg["items"]]
        n0, old_map, old_key, old_at = mp.length, mp.at, items.key, items.at
        lab = sym_text(ctx, "rmlabel")
        f = _method(interp, name, "removeSignal")
        interp.inline_only.add(f.qualname)
        w0 = len(interp.writes)
        oc = _outcome(interp, lambda: interp.call(f, [o, lab], {}))
        has = lambda k: interp.str_eq(old_at(k).fields["label"], lab)
        j = ctx.fresh_const("m")
        tag = "C15.EMG.removeSignal"
        if oc[0] == "raise":
            ctx.oblige(f"{tag}.KeyError_only_if_no_signal_has_the_label({oc[1].cls.name})", And(oc[1].cls.is_subclass(EXC["KeyError"]), Implies(rng(0, j, n0), Not(has(j)))), kind="C15")
            _no_writes(interp, tag + ".refused", w0)
            return
        p = ctx.fresh_int("removed_pos")
        # the removed position is the first with that label: define it by its property and check the result against it
        ctx.assume(And(rng(0, p, n0), has(p), z3.ForAll([j], z3.Implies(z3.And(0 <= j, j < p), z3.Not(zbool(has(j)))))))
        _pairs_goals(interp, tag, o, cfg, n0, old_map, old_key, n0 - 1, lambda k: (False, If(zint(k) < p, zint(k), zint(k) + 1)), None)
    out.append(Task("C15.EMG.removeSignal", "basictdf.tdfEMG.EMG.removeSignal", ["C15"], t_remove_signal, kind="obj"))

    def t_remove_index(interp):
        ctx = interp.ctx
        name, cfg = "PlatformsCalibration", CHAN["PlatformsCalibration"]
        sp, o = _setup(interp, name, None)
        mp, items = o.fields[cfg["map"]], o.fields[cfg["items"]]
        n0, old_map, old_key = mp.length, mp.at, items.key
        idx = z3.Const("rm_index", I)
        f = _method(interp, name, "remove_platform")
        interp.inline_only.add(f.qualname)
        w0 = len(interp.writes)
        oc = _outcome(interp, lambda: interp.call(f, [o, idx], {}))
        tag = "C15.PlatformsCalibration.remove_platform[index]"
        inr = And(idx >= -zint(n0), idx < zint(n0))
        if oc[0] == "raise":
            ctx.oblige(f"{tag}.refused_only_out_of_range({oc[1].cls.name})", Not(inr), kind="C15")
            _no_writes(interp, tag + ".refused", w0)
            return
        ctx.oblige(f"{tag}.in_range_when_removing", inr, kind="C15")
        p = If(idx < 0, idx + zint(n0), idx)
        _pairs_goals(interp, tag, o, cfg, n0, old_map, old_key, n0 - 1, lambda k: (False, If(zint(k) < p, zint(k), zint(k) + 1)), None)
    out.append(Task("C15.PlatformsCalibration.remove_platform[index]", "basictdf.tdfForcePlatformsCalibration.ForcePlatformsCalibrationDataBlock.remove_platform", ["C15"], t_remove_index, kind="obj"))

    def t_ctor_platforms(interp):
        ctx = interp.ctx
        name, cfg = "PlatformsCalibration", CHAN["PlatformsCalibration"]
        cls = SPECS[name].klass(interp)
        init, _ = cls.lookup("__init__")
        interp.inline_only.add(init.qualname)
        ctx.epoch += 1
        its = [SPECS["PlatformInfo"].make(interp, f"given{i}", (), []) for i in range(3)]
        given = VList(list(its), epoch=ctx.epoch)
        o = interp.instantiate(cls, [], {"platforms": given})
        mp, items = o.fields[cfg["map"]], o.fields[cfg["items"]]
        tag = "C15.PlatformsCalibration.constructor[platforms=3]"
        ok = isinstance(mp, VList) and mp.items is not None and isinstance(items, VList) and items.items is not None
        ctx.oblige(f"{tag}.lists_built", ok, kind="C15")
        if ok:
            ctx.oblige(f"{tag}.same_length", len(mp.items) == 3 and len(items.items) == 3, kind="C15")
            ctx.oblige(f"{tag}.items_in_order", all(a is b for a, b in zip(items.items, its)), kind="C15")
            chs = [npmodel.as_int(interp, c) for c in mp.items]
            ctx.oblige(f"{tag}.channels_unique", And(*[Not(eq(chs[i], chs[j])) for i in range(len(chs)) for j in range(i + 1, len(chs))]), kind="C15")
    out.append(Task("C15.PlatformsCalibration.constructor", "basictdf.tdfForcePlatformsCalibration.ForcePlatformsCalibrationDataBlock.__init__", ["C15"], t_ctor_platforms, kind="obj"))

    def t_pd_assign(interp):
        """ForcePlatformsDataBlock.platforms = values: installs exactly the values with fresh unique channels, or restores both lists"""
        ctx = interp.ctx
        name, cfg = "PlatformsData", CHAN["PlatformsData"]
        sp, o = _setup(interp, name, None)
        old_map, old_items = o.fields[cfg["map"]], o.fields[cfg["items"]]
        st_map, st_items = (old_map.items, old_map.n, old_map.at), (old_items.items, old_items.n, old_items.at)
        N = o.fields["n_frames"]
        is_plat = [z3.Const(f"is_platform{i}", B) for i in range(2)]
        vals = []
        for i in range(2):
            x = SPECS["PlatformData"].make(interp, f"val{i}", (), [], N=N)
            x.__class__ = DynTrack
            klass = SPECS["PlatformData"].klass(interp)
            x.dyn_isinstance = (lambda cls, i=i, klass=klass: is_plat[i] if cls is klass else None)
            vals.append(x)
        ctx.epoch += 1
        given = VList(list(vals), epoch=ctx.epoch)
        prop, _ = SPECS[name].klass(interp).lookup("platforms")
        f = prop.fset
        interp.inline_only.add(f.qualname)
        oc = _outcome(interp, lambda: interp.call(f, [o, given], {}))
        tag = "C15.PlatformsData.platforms_setter"
        allok = And(*is_plat)
        mp, items = o.fields[cfg["map"]], o.fields[cfg["items"]]
        if oc[0] == "raise":
            ctx.oblige(f"{tag}.refused_only_if_some_value_is_not_a_platform", Not(allok), kind="C15")
            ctx.oblige(f"{tag}.rollback_restores_both_lists", mp is old_map and items is old_items, kind="C15")
            ctx.oblige(f"{tag}.rollback_lists_untouched", (old_map.items, old_map.n, old_map.at) == st_map and (old_items.items, old_items.n, old_items.at) == st_items, kind="C15")
        else:
            ctx.oblige(f"{tag}.accepted_only_if_all_values_are_platforms", allok, kind="C15")
            ok = isinstance(mp, VList) and mp.items is not None and isinstance(items, VList) and items.items is not None
            ctx.oblige(f"{tag}.lists_built", ok, kind="C15")
            if ok:
                ctx.oblige(f"{tag}.same_length", len(mp.items) == 2 and len(items.items) == 2, kind="C15")
                ctx.oblige(f"{tag}.items_in_order", all(a is b for a, b in zip(items.items, vals)), kind="C15")
                chs = [npmodel.as_int(interp, c) for c in mp.items]
                ctx.oblige(f"{tag}.channels_unique", Not(eq(chs[0], chs[1])) if len(chs) == 2 else False, kind="C15")
                ctx.oblige(f"{tag}.fresh_lists", mp is not old_map and items is not old_items and items is not given, kind="C15")
    out.append(Task("C15.PlatformsData.platforms_setter", "basictdf.tdfForcePlatformsData.ForcePlatformsDataBlock.platforms.setter", ["C15"], t_pd_assign, kind="obj"))
    return out


# ================================================================================================ C14
EQ_BLOCKS = ["EMG", "Events", "PlatformsData", "PlatformsCalibration", "Calibration", "Data3D", "ForceTorque3D", "OpticalSetup"]
EQ_TABLES = ["Data2D"]          # blocks whose content is a table of optional cells, not a list of items
EQ_ITEMS = ["EMGTrack", "Event", "PlatformData", "PlatformInfo", "SeelabCamera", "BTSCamera", "Viewport", "OpticalChannel"]
LIST_FIELDS = {"EMG": ("_signals", "_emgMap"), "Events": ("events", None), "PlatformsData": ("_platforms", "_plat_map"),
               "PlatformsCalibration": ("_platforms", "_platformMap"), "Calibration": ("cam_data", "cameras_calibration_map"),
               "Data3D": ("_tracks", None), "ForceTorque3D": ("_tracks", None), "OpticalSetup": ("channels", None)}
SCALAR_FIELDS = {"EMG": ["frequency", "nSamples"], "Events": [], "PlatformsData": ["frequency", "n_frames"], "PlatformsCalibration": [],
                 "Calibration": [], "Data3D": ["frequency", "nFrames"], "ForceTorque3D": ["frequency", "nFrames"], "OpticalSetup": []}


def _block_write_contract(interp, fn, args, kw):
    """Block._write appends enc_T(self) -- W_T, proved by the codec engine; used here as the callee contract of the
    byte-comparing __eq__ methods"""
    from .symlayout import layout_atoms
    from .codec import _file_write
    self_ = args[0]
    name = getattr(self_, "layout", None)
    if name is None:
        raise OutOfReach("_write of an object that is not a layout instance")
    _file_write(interp, args[1], layout_atoms(interp.ctx, name, SPECS[name].view(self_)))
    return None


def _eq_setup(interp, name, variant):
    from .codec import CONTRACTS as CC
    sp, a = _setup(interp, name, variant)
    b = decoded(interp, name, a)
    b.decoded = False
    f = _method(interp, name, "__eq__")
    return sp, a, b, f


def _eval_eq(interp, tag, x, y):
    """value of x == y as a boolean term (None if it raised)"""
    from .loops import Pure

    def go():
        with Pure(interp.ctx):          # the whole comparison as one boolean term: no forking on its conjuncts
            return interp.equals(x, y)
    oc = _outcome(interp, go)
    if oc[0] == "raise":
        interp.ctx.oblige(f"{tag}.comparison_raises({oc[1].cls.name})", False, kind="C14")
        return None
    return interp.truth_term(oc[1])


def c14_tasks():
    out = []
    for name in EQ_BLOCKS + EQ_TABLES + EQ_ITEMS:
        for variant in SPECS[name].variants:
            if (name == "Data3D" and variant == "byTrack-nolinks-attr") or (name == "BTSCamera" and variant == "short"):
                continue
            vt = f"[{variant}]" if variant else ""

            def t_equal(interp, name=name, variant=variant, vt=vt):
                """a == a, a == decode(encode(a)) and the converse hold (also with gaps)"""
                ctx = interp.ctx
                if name in ("Data3D", "ForceTorque3D", "OpticalSetup"):
                    interp.contracts = dict(interp.contracts)
                    interp.contracts[SPECS[name].cls + "._write"] = _block_write_contract
                sp, a, b, f = _eq_setup(interp, name, variant)
                if f is None:
                    ctx.oblige(f"C14.{name}{vt}.has_value_equality", False, kind="C14")
                    return
                for desc, x, y in (("self", a, a), ("decoded", a, b), ("decoded_converse", b, a)):
                    r = _eval_eq(interp, f"C14.{name}{vt}.{desc}", x, y) if not (x is y and isinstance(f, FuncModel) is False) else True
                    if r is not None:
                        ctx.oblige(f"C14.{name}{vt}.equal_to_{desc}", r, kind="C14")
            out.append(Task(f"C14.{name}{vt}.equal_content_compares_equal", SPECS[name].cls + ".__eq__", ["C14"], t_equal, kind="obj"))
    # blocks that differ in exactly one respect compare unequal
    for name in EQ_BLOCKS:
        for variant in SPECS[name].variants:
            if name == "Data3D" and variant == "byTrack-nolinks-attr":
                continue
            vt = f"[{variant}]" if variant else ""
            lst, mp = LIST_FIELDS[name]

            def mk(respect, name=name, variant=variant, vt=vt, lst=lst, mp=mp):
                def run(interp):
                    ctx = interp.ctx
                    from .eqmodel import close, close_axioms
                    close_axioms(ctx)
                    if name in ("Data3D", "ForceTorque3D", "OpticalSetup"):
                        interp.contracts = dict(interp.contracts)
                        interp.contracts[SPECS[name].cls + "._write"] = _block_write_contract
                    sp, a, b, f = _eq_setup(interp, name, variant)
                    items = b.fields[lst]
                    if respect == "count+1":
                        extra = SPECS[ITEM_LAYOUT[name, variant]].make(interp, "extra", (), [], **_item_kw(name, a))
                        n0, at0 = items.n, items.at
                        b.fields[lst] = VList(None, n0 + 1, lambda k: MixedElem(eq(zint(k), zint(n0)), extra, at0(k)) if conc(eq(zint(k), zint(n0))) is None else (extra if conc(eq(zint(k), zint(n0))) else at0(k)), label="longer")
                        if mp:
                            m0 = b.fields[mp]
                            newch = z3.Const("extra_channel", I)
                            if isinstance(m0, VList):
                                b.fields[mp] = VList(None, n0 + 1, lambda k, m0=m0: If(zint(k) == zint(n0), newch, m0.at(k)))
                            else:
                                b.fields[mp] = VNd((n0 + 1,), m0.dt, lambda k, m0=m0: If(zint(k) == zint(n0), newch, m0.get(k)))
                    elif respect == "count-1":
                        ctx.assume(zint(items.n) >= 1)
                        n0, at0 = items.n, items.at
                        b.fields[lst] = VList(None, n0 - 1, at0, label="shorter")
                        if mp:
                            m0 = b.fields[mp]
                            b.fields[mp] = VList(None, n0 - 1, m0.at) if isinstance(m0, VList) else VNd((n0 - 1,), m0.dt, m0.get)
                    elif respect == "channel":
                        j0 = z3.Const("changed_pos", I)
                        ctx.assume(rng(0, j0, items.n))
                        m0 = b.fields[mp]
                        other = z3.Const("other_channel", I)
                        old = m0.at(j0) if isinstance(m0, VList) else m0.get(j0)
                        ctx.assume(other != old)
                        b.fields[mp] = VList(None, m0.n, lambda k, m0=m0: If(zint(k) == j0, other, m0.at(k))) if isinstance(m0, VList) else VNd(m0.shape, m0.dt, lambda k, m0=m0: If(zint(k) == j0, other, m0.get(k)))
                    elif respect == "label":
                        j0 = z3.Const("changed_pos", I)
                        ctx.assume(rng(0, j0, items.n))
                        lab2 = sym_text(ctx, "other_label")
                        at0 = items.at
                        ctx.assume(Not(interp.str_eq(lab2, at0(j0).fields[LABEL_FIELD[name]])))

                        def at1(k, at0=at0):
                            e = at0(k)
                            o2 = VObj(e.cls, e.epoch, e.label)
                            o2.__dict__.update({a: v for a, v in e.__dict__.items() if a not in ("fields",)})
                            o2.fields = dict(e.fields)
                            old = e.fields[LABEL_FIELD[name]].seq
                            c = eq(zint(k), j0)
                            o2.fields[LABEL_FIELD[name]] = VStr(Seq(If(c, lab2.seq.n, old.n), lambda i, old=old, c=c: If(c, lab2.seq.get(i), old.get(i))))
                            return o2
                        b.fields[lst] = VList(None, items.n, at1, label="relabelled")
                    elif respect == "sample":
                        j0 = z3.Const("changed_pos", I)
                        ctx.assume(rng(0, j0, items.n))
                        fld = SAMPLE_FIELD[name]
                        at0 = items.at
                        probe = at0(j0).fields[fld]
                        ix = [z3.Const(f"changed_ix{d}", I) for d in range(probe.ndim)]
                        ctx.assume(And(*[rng(0, i, sdim) for i, sdim in zip(ix, probe.shape)]))
                        w2 = z3.Const("other_word", I)
                        oldw = at0(j0).fields[fld].get(*ix)
                        ctx.assume(And(Not(npmodel.isnan(w2)), Not(npmodel.isnan(oldw)), Not(close(w2, oldw)), w2 != oldw))

                        def at1(k, at0=at0):
                            e = at0(k)
                            o2 = VObj(e.cls, e.epoch, e.label)
                            o2.__dict__.update({a: v for a, v in e.__dict__.items() if a not in ("fields",)})
                            o2.fields = dict(e.fields)
                            src = e.fields[fld]
                            c = eq(zint(k), j0)
                            o2.fields[fld] = VNd(src.shape, src.dt, lambda *i, src=src, c=c: If(And(c, *[eq(a, b_) for a, b_ in zip(i, ix)]), w2, src.get(*i)))
                            return o2
                        b.fields[lst] = VList(None, items.n, at1, label="resampled")
                    elif respect.startswith("scalar:"):
                        fld = respect.split(":")[1]
                        other = z3.Const("other_" + fld, I)
                        ctx.assume(other != b.fields[fld])
                        b.fields[fld] = other
                    else:
                        raise OutOfReach(respect)
                    for desc, x, y in (("a==b", a, b), ("b==a", b, a)):
                        r = _eval_eq(interp, f"C14.{name}{vt}.differs[{respect}].{desc}", x, y)
                        if r is not None:
                            ctx.oblige(f"C14.{name}{vt}.differs[{respect}].{desc}_is_false", Not(r), kind="C14")
                return run
            respects = ["count-1"] + (["channel"] if mp else []) + (["label"] if name in LABEL_FIELD else []) + (["sample"] if name in SAMPLE_FIELD else []) + ["scalar:" + f for f in SCALAR_FIELDS[name]]
            for r in respects:
                out.append(Task(f"C14.{name}{vt}.differs[{r}]", SPECS[name].cls + ".__eq__", ["C14"], mk(r), kind="obj"))
    out.extend(_c14_data2d())
    # items: one stored word / character / count changed
    for name in EQ_ITEMS:
        variant = "full" if name == "BTSCamera" else SPECS[name].variants[0]

        def t_item(interp, name=name, variant=variant):
            ctx = interp.ctx
            from .eqmodel import close, close_axioms
            close_axioms(ctx)
            sp, a, _b, f = _eq_setup(interp, name, variant)
            if f is None:
                ctx.oblige(f"C14.{name}.has_value_equality", False, kind="C14")
                return
            for fld, val in list(a.fields.items()):
                b = decoded(interp, name, a)
                b.decoded = False
                if isinstance(val, VNd) and val.fields is None and val.dt.kind in ("f4", "f8", "i4", "i2"):
                    ix = [z3.Const(f"cix{d}_{fld}", I) for d in range(val.ndim)]
                    ctx.assume(And(*[rng(0, i, sdim) for i, sdim in zip(ix, val.shape)]))
                    if hasattr(a, "present"):
                        ctx.assume(a.present(ix[0]))
                    w2 = z3.Const("other_" + fld, I)
                    oldw = val.get(*ix)
                    if val.dt.kind in ("f4", "f8"):
                        ctx.assume(And(Not(npmodel.isnan(w2)), Not(close(w2, oldw)), w2 != oldw))
                    else:
                        ctx.assume(w2 != oldw)
                    b.fields[fld] = VNd(val.shape, val.dt, lambda *i, val=val, ix=ix, w2=w2: If(And(*[eq(x, y) for x, y in zip(i, ix)]), w2, val.get(*i)))
                    what = f"{fld}_changed"
                elif isinstance(val, VStr):
                    lab2 = sym_text(ctx, "other_" + fld)
                    ctx.assume(Not(interp.str_eq(lab2, val)))
                    b.fields[fld] = lab2
                    what = f"{fld}_changed"
                else:
                    continue
                for desc, x, y in (("a==b", a, b), ("b==a", b, a)):
                    r = _eval_eq(interp, f"C14.{name}.differs[{what}].{desc}", x, y)
                    if r is not None:
                        ctx.oblige(f"C14.{name}.differs[{what}].{desc}_is_false", Not(r), kind="C14")
            if name == "Event":
                b = decoded(interp, name, a)
                b.decoded = False
                v = a.fields["values"]
                ctx.assume(zint(v.shape[0]) >= 1)
                b.fields["values"] = VNd((v.shape[0] - 1,), v.dt, v.get)
                for desc, x, y in (("a==b", a, b), ("b==a", b, a)):
                    r = _eval_eq(interp, f"C14.Event.differs[one_value_fewer].{desc}", x, y)
                    if r is not None:
                        ctx.oblige(f"C14.Event.differs[one_value_fewer].{desc}_is_false", Not(r), kind="C14")
        out.append(Task(f"C14.{name}.differs", SPECS[name].cls + ".__eq__", ["C14"], t_item, kind="obj"))
    return out


def _c14_data2d():
    """Data2D blocks that differ in one header scalar, one camera channel, one more frame / camera, one cell present
    on one side only, one cell with one more point, or one coordinate, compare unequal (both ways round)"""
    from .loops import MixedElem
    from .symlayout import opt_parts
    name = "Data2D"

    def mk(respect):
        def run(interp):
            ctx = interp.ctx
            from .eqmodel import close, close_axioms
            close_axioms(ctx)
            sp, a, b, f = _eq_setup(interp, name, None)
            if f is None:
                ctx.oblige("C14.Data2D.has_value_equality", False, kind="C14")
                return
            pck = b.fields["_data"]
            d0 = pck.fields["data"]
            nF, nC = d0.shape

            def with_data(nd):
                p2 = VObj(pck.cls, pck.epoch, pck.label)
                p2.__dict__.update({k: v for k, v in pck.__dict__.items() if k != "fields"})
                p2.fields = dict(pck.fields)
                p2.fields["data"] = nd
                b.fields["_data"] = p2
            if respect.startswith("scalar:"):
                fld = respect.split(":")[1]
                old = b.fields[fld]
                if isinstance(old, VFloat):
                    w2 = z3.Const("other_" + fld, I)
                    ctx.assume(And(Not(npmodel.isnan(w2)), Not(close(w2, old.w)), w2 != old.w))
                    b.fields[fld] = VFloat(w2, old.kind)
                elif isinstance(old, VEnum):
                    other = z3.Const("other_" + fld, I)
                    ctx.assume(And(other != old.val, Or(*[other == m.val for m in old.cls.members.values()])))
                    b.fields[fld] = VEnum(old.cls, other)
                else:
                    other = z3.Const("other_" + fld, I)
                    ctx.assume(other != old)
                    b.fields[fld] = other
            elif respect == "channel":
                j0 = z3.Const("changed_pos", I)
                ctx.assume(rng(0, j0, nC))
                m0 = b.fields["_camMap"]
                other = z3.Const("other_channel", I)
                ctx.assume(And(other != m0.get(j0), other >= 0, other < 2**15))
                b.fields["_camMap"] = VNd(m0.shape, m0.dt, lambda k, m0=m0: If(zint(k) == j0, other, m0.get(k)))
            elif respect in ("frames+1", "cams+1"):
                if respect == "frames+1":
                    b.fields["nFrames"] = nF + 1
                    with_data(VNd((nF + 1, nC), d0.dt, lambda i, j: MixedElem(And(zint(i) < zint(nF), opt_parts(d0.get(i, j))[0]), opt_parts(d0.get(i, j))[1], None)))
                else:
                    m0 = b.fields["_camMap"]
                    b.fields["nCams"] = nC + 1
                    b.fields["_camMap"] = VNd((nC + 1,), m0.dt, lambda k, m0=m0: If(zint(k) == zint(nC), 77, m0.get(k)))
                    with_data(VNd((nF, nC + 1), d0.dt, lambda i, j: MixedElem(And(zint(j) < zint(nC), opt_parts(d0.get(i, j))[0]), opt_parts(d0.get(i, j))[1], None)))
            elif respect in ("cell_emptied", "cell_one_point_fewer", "coordinate"):
                i0, j0 = z3.Const("changed_frame", I), z3.Const("changed_cam", I)
                ctx.assume(And(rng(0, i0, nF), rng(0, j0, nC)))
                p0, x0 = opt_parts(d0.get(i0, j0))
                ctx.assume(p0)
                here = lambda i, j: And(eq(zint(i), i0), eq(zint(j), j0))
                if respect == "cell_emptied":
                    with_data(VNd((nF, nC), d0.dt, lambda i, j: MixedElem(And(Not(here(i, j)), opt_parts(d0.get(i, j))[0]), opt_parts(d0.get(i, j))[1], None)))
                elif respect == "cell_one_point_fewer":
                    ctx.assume(zint(x0.shape[0]) >= 2)

                    def cell(i, j):
                        p, x = opt_parts(d0.get(i, j))
                        return MixedElem(p, VNd((If(here(i, j), zint(x.shape[0]) - 1, zint(x.shape[0])), 2), x.dt, x.get), None)
                    with_data(VNd((nF, nC), d0.dt, cell))
                else:
                    q0, c0 = z3.Const("changed_point", I), z3.Const("changed_axis", I)
                    ctx.assume(And(rng(0, q0, x0.shape[0]), rng(0, c0, 2)))
                    w2 = z3.Const("other_word", I)
                    oldw = x0.get(q0, c0)
                    ctx.assume(And(Not(npmodel.isnan(w2)), Not(npmodel.isnan(oldw)), Not(close(w2, oldw)), w2 != oldw))

                    def cell(i, j):
                        p, x = opt_parts(d0.get(i, j))
                        return MixedElem(p, VNd(x.shape, x.dt, lambda q, c, x=x, i=i, j=j: If(And(here(i, j), eq(zint(q), q0), eq(zint(c), c0)), w2, x.get(q, c))), None)
                    with_data(VNd((nF, nC), d0.dt, cell))
            else:
                raise OutOfReach(respect)
            for desc, x, y in (("a==b", a, b), ("b==a", b, a)):
                r = _eval_eq(interp, f"C14.Data2D.differs[{respect}].{desc}", x, y)
                if r is not None:
                    ctx.oblige(f"C14.Data2D.differs[{respect}].{desc}_is_false", Not(r), kind="C14")
        return run
    out = []
    for r in ("scalar:frequency", "scalar:startTime", "scalar:flags", "channel", "frames+1", "cams+1", "cell_emptied", "cell_one_point_fewer", "coordinate"):
        out.append(Task(f"C14.Data2D.differs[{r}]", SPECS[name].cls + ".__eq__", ["C14"], mk(r), kind="obj"))
    return out


LABEL_FIELD = {"EMG": "label", "Events": "label", "PlatformsCalibration": "label"}
SAMPLE_FIELD = {"EMG": "data", "Events": "values", "PlatformsData": "force", "PlatformsCalibration": "position", "Calibration": "translation_vector"}
ITEM_LAYOUT = {("EMG", None): "EMGTrack", ("Events", None): "Event", ("PlatformsData", None): "PlatformData", ("PlatformsCalibration", None): "PlatformInfo",
               ("Calibration", "Seelab1"): "SeelabCamera", ("Calibration", "BTS"): "BTSCamera", ("Data3D", "byTrack"): "MarkerTrack",
               ("Data3D", "byTrackWithoutLinks"): "MarkerTrack", ("ForceTorque3D", None): "ForceTorqueTrack", ("OpticalSetup", None): "OpticalChannel"}


def _item_kw(name, a):
    if name in ("EMG",):
        return dict(N=a.fields["nSamples"])
    if name in ("Data3D", "ForceTorque3D"):
        return dict(N=a.fields["nFrames"])
    if name == "PlatformsData":
        return dict(N=a.fields["n_frames"])
    return {}


def all_tasks():
    return c18_tasks() + c16_tasks() + c20_tasks() + c19_tasks() + c15_tasks() + c14_tasks()


def property_config(tasks, select):
    P = {}
    P["C18"] = dict(decisive=select(tasks, ("C18.",)), chain=[], harness=dict(extra=[("harness.obj_checks", "run_c18")]))
    P["C16"] = dict(decisive=select(tasks, ("C16.",)), chain=[], harness=dict(extra=[("harness.obj_checks", "run_c16")]))
    P["C20"] = dict(decisive=select(tasks, ("C20.", "C16.Data3D.assign", "C16.ForceTorque3D.assign")),
                    chain=select(tasks, ("B.MarkerTrack", "B.EMGTrack", "B.Event", "B.ForceTorqueTrack", "B.PlatformInfo", "B.PlatformData", "B.OpticalChannel", "TDF.", "C16.Data3D.add_track",
                                         "C16.ForceTorque3D.add_track", "C16.EMG.addSignal", "C15.EMG.add[", "C15.PlatformsCalibration.add[", "C15.PlatformsData.add[")),
                    harness=dict(extra=[("harness.obj_checks", "run_c20")]))
    P["C19"] = dict(decisive=select(tasks, ("C19.",)), chain=[], harness=dict(extra=[("harness.obj_checks", "run_c19")]))
    P["C14"] = dict(decisive=select(tasks, ("C14.",)), chain=select(tasks, ("W.Data3D", "W.ForceTorque3D", "W.OpticalSetup", "RT.Data3D", "RT.ForceTorque3D", "RT.OpticalSetup", "SW.Data2DPCK")),
                    harness=dict(extra=[("harness.obj_checks2", "run_c14")]))
    # the block codecs of the three channel-mapped blocks call their items, the primitive codecs and _segments through
    # contracts: the tasks proving those belong to the check (chain closed)
    callees = select(tasks, ("RT.EMGTrack", "RT.PlatformData", "RT.PlatformInfo", "W.EMGTrack", "W.PlatformData", "W.PlatformInfo", "B.EMGTrack", "B.PlatformData", "B.PlatformInfo",
                             "SEG.EMGTrack", "SEG.PlatformData", "TDF.", "C13.BTSString."))
    P["C15"] = dict(decisive=select(tasks, ("C15.", "B.EMG", "B.PlatformsData", "B.PlatformsCalibration", "W.EMG", "W.PlatformsData", "W.PlatformsCalibration")) + callees, chain=[],
                    harness=dict(extra=[("harness.obj_checks2", "run_c15")]))
    return P
