"""Object engine tasks: C14 (equality), C15 (channel maps), C16 (track lists), C18 (lookup), C19 (constructors), C20 (freshness)."""
import z3

from . import npmodel
from .codec import CONTRACTS, decoded, expect_eq
from .core import (And, B, I, If, Implies, Not, Or, OutOfReach, PyRaise, Seq, VEnum, VFloat, VList, VObj, VProperty, VStr, conc, eq, is_bool,
                   is_int, rng, zbool, zint)
from .interp import EXC, FuncModel, T_LIST, T_TUPLE, T_NDARRAY
from .loops import MixedElem, VIter
from .npmodel import VDType, VNd, VShape
from .symlayout import SPECS, Sym, sym_str
from .tasks_codec import _setup, _fn
from .tasks_prims import _outcome, sym_text
from .verify import Task

LOOKUP = {"Data3D": "_tracks", "ForceTorque3D": "_tracks", "EMG": "_signals", "Events": "events"}
ITEM_OF = {"Data3D": "MarkerTrack", "ForceTorque3D": "ForceTorqueTrack", "EMG": "EMGTrack", "Events": "Event"}


def _method(interp, name, attr):
    cls = SPECS[name].klass(interp)
    f, _ = cls.lookup(attr)
    if isinstance(f, VProperty):
        return f
    return f


def _resolve(ctx, v):
    """element of a symbolic list that may be a MixedElem: pick the alternative the path condition entails"""
    while isinstance(v, MixedElem):
        if ctx.entails(v.c):
            v = v.x
        elif ctx.entails(Not(v.c)):
            v = v.y
        else:
            raise OutOfReach("undetermined mixed element")
    return v


def _no_writes(interp, tag, before):
    new = interp.writes[before:]
    interp.ctx.oblige(f"{tag}.changes_nothing({len(new)} writes)", len(new) == 0, kind="frame")


# ================================================================================================ C18
def c18_tasks():
    out = []
    for name, fld in LOOKUP.items():
        def t_len_iter(interp, name=name, fld=fld):
            ctx = interp.ctx
            sp, o = _setup(interp, name, SPECS[name].variants[0])
            items = o.fields[fld]
            w0 = len(interp.writes)
            f = _method(interp, name, "__len__")
            interp.inline_only.add(f.qualname)
            ctx.oblige(f"C18.{name}.len_is_number_of_items", eq(interp.call(f, [o], {}), items.length), kind="C18")
            g = _method(interp, name, "__iter__")
            interp.inline_only.add(g.qualname)
            it = interp.call(g, [o], {})
            ctx.oblige(f"C18.{name}.iteration_is_over_the_item_list", isinstance(it, VIter) and it.inner is items, kind="C18")
            _no_writes(interp, f"C18.{name}.len_iter", w0)
        out.append(Task(f"C18.{name}.len_iter", SPECS[name].cls + ".__len__", ["C18"], t_len_iter, kind="obj"))

        def t_index(interp, name=name, fld=fld):
            ctx = interp.ctx
            sp, o = _setup(interp, name, SPECS[name].variants[0])
            items = o.fields[fld]
            n = items.length
            i = z3.Const("key_i", I)
            w0 = len(interp.writes)
            f = _method(interp, name, "__getitem__")
            interp.inline_only.add(f.qualname)
            oc = _outcome(interp, lambda: interp.call(f, [o, i], {}))
            inr = And(i >= -zint(n), i < zint(n))
            if oc[0] == "raise":
                ctx.oblige(f"C18.{name}.index.IndexError_only_out_of_range({oc[1].cls.name})", And(oc[1].cls.is_subclass(EXC["IndexError"]), Not(inr)), kind="C18")
            else:
                r = _resolve(ctx, oc[1])
                ctx.oblige(f"C18.{name}.index.in_range_when_returning", inr, kind="C18")
                ok = isinstance(r, VObj) and hasattr(r, "key") and r.key[0] == items.key[0] + "" and len(r.key) == len(items.key) + 1
                ctx.oblige(f"C18.{name}.index.returns_an_item_of_the_block", bool(ok), kind="C18")
                if ok:
                    ctx.oblige(f"C18.{name}.index.returns_the_i_th_item", eq(r.key[-1], If(i < 0, i + zint(n), i)), kind="C18")
            _no_writes(interp, f"C18.{name}.index", w0)
        out.append(Task(f"C18.{name}.index", SPECS[name].cls + ".__getitem__", ["C18"], t_index, kind="obj"))

        def t_label(interp, name=name, fld=fld):
            ctx = interp.ctx
            sp, o = _setup(interp, name, SPECS[name].variants[0])
            items = o.fields[fld]
            n = items.length
            key = sym_text(ctx, "key")
            w0 = len(interp.writes)
            c = _method(interp, name, "__contains__")
            interp.inline_only.add(c.qualname)
            cont = interp.truth_term(interp.call(c, [o, key], {}))
            f = _method(interp, name, "__getitem__")
            interp.inline_only.add(f.qualname)
            oc = _outcome(interp, lambda: interp.call(f, [o, key], {}))
            j = ctx.fresh_const("other")
            lab = lambda k: interp.str_eq(items.at(k).fields["label"], key)
            if oc[0] == "raise":
                ctx.oblige(f"C18.{name}.label.raises_KeyError({oc[1].cls.name})", oc[1].cls.is_subclass(EXC["KeyError"]), kind="C18")
                ctx.oblige(f"C18.{name}.label.KeyError_only_if_no_item_has_the_label", Implies(rng(0, j, n), Not(lab(j))), kind="C18")
                ctx.oblige(f"C18.{name}.label.not_contained_when_lookup_fails", Not(cont), kind="C18")
            else:
                r = _resolve(ctx, oc[1])
                ok = isinstance(r, VObj) and hasattr(r, "key") and r.key[0] == items.key[0] and len(r.key) == len(items.key) + 1
                ctx.oblige(f"C18.{name}.label.returns_an_item_of_the_block", bool(ok), kind="C18")
                if ok:
                    m = r.key[-1]
                    ctx.oblige(f"C18.{name}.label.returned_item_has_the_label", And(rng(0, m, n), lab(m)), kind="C18")
                    ctx.oblige(f"C18.{name}.label.returned_item_is_the_first_with_the_label", Implies(And(0 <= j, j < m), Not(lab(j))), kind="C18")
                ctx.oblige(f"C18.{name}.label.contained_when_lookup_succeeds", cont, kind="C18")
            _no_writes(interp, f"C18.{name}.label", w0)
        out.append(Task(f"C18.{name}.label", SPECS[name].cls + ".__getitem__+__contains__", ["C18"], t_label, kind="obj"))

        def t_keytype(interp, name=name, fld=fld):
            ctx = interp.ctx
            sp, o = _setup(interp, name, SPECS[name].variants[0])
            f = _method(interp, name, "__getitem__")
            interp.inline_only.add(f.qualname)
            w0 = len(interp.writes)
            for desc, key in (("None", None), ("float", VFloat(z3.Const("kf", I), "py")), ("tuple", (1,)), ("bytes", b"a"), ("item", o.fields[fld].at(z3.Const("kk", I)))):
                oc = _outcome(interp, lambda: interp.call(f, [o, key], {}))
                ctx.oblige(f"C18.{name}.keytype.{desc}_raises_TypeError", oc[0] == "raise" and oc[1].cls.is_subclass(EXC["TypeError"]), kind="C18")
            _no_writes(interp, f"C18.{name}.keytype", w0)
        out.append(Task(f"C18.{name}.keytype", SPECS[name].cls + ".__getitem__", ["C18"], t_keytype, kind="obj"))
    return out


# ================================================================================================ C16 / C20 (setters)
class DynTrack(VObj):
    """an object that is a track of class ``cls`` iff ``is_track`` (symbolic): models arbitrary objects in a list"""
    pass


def _dyn_item(interp, item_layout, path, idx, nframes, is_track):
    o = SPECS[item_layout].make(interp, path, idx, [], N=nframes)
    o.__class__ = DynTrack
    klass = SPECS[item_layout].klass(interp)
    o.dyn_isinstance = lambda cls: (is_track if cls is klass else (False if not klass.is_subclass(cls) else is_track))
    return o


ADD = {"Data3D": ("add_track", "_tracks", "MarkerTrack", "nFrames"), "ForceTorque3D": ("add_track", "_tracks", "ForceTorqueTrack", "nFrames"),
       "EMG": ("addSignal", "_signals", "EMGTrack", "nSamples")}


def c16_tasks():
    out = []
    for name, (add, fld, item, nattr) in ADD.items():
        def t_add(interp, name=name, add=add, fld=fld, item=item, nattr=nattr):
            ctx = interp.ctx
            sp, o = _setup(interp, name, SPECS[name].variants[0])
            lst = o.fields[fld]
            n0 = lst.length
            nt = z3.Const("new_track_frames", I)
            ctx.assume(nt >= 0)
            is_track = z3.Const("new_is_track", B)
            x = _dyn_item(interp, item, "newitem", (), nt, is_track)
            f = _method(interp, name, add)
            interp.inline_only.add(f.qualname)
            w0 = len(interp.writes)
            oc = _outcome(interp, lambda: interp.call(f, [o, x], {}))
            good = And(is_track, eq(nt, o.fields[nattr]))
            if oc[0] == "raise":
                ctx.oblige(f"C16.{name}.{add}.refuses_only_invalid_items({oc[1].cls.name})", Not(good), kind="C16")
                _no_writes(interp, f"C16.{name}.{add}.refused_add", w0)
            else:
                ctx.oblige(f"C16.{name}.{add}.accepts_only_tracks_of_the_block_length", good, kind="C16")
                ctx.oblige(f"C16.{name}.{add}.length_grows_by_one", eq(o.fields[fld].length, n0 + 1), kind="C16")
                last = _resolve(ctx, o.fields[fld].elem(n0))
                ctx.oblige(f"C16.{name}.{add}.new_item_is_last", last is x, kind="C16")
                k = ctx.fresh_const("old")
                ctx.solver.push()
                ctx.solver.add(zbool(rng(0, k, n0)))
                try:
                    e = _resolve(ctx, o.fields[fld].elem(k))
                finally:
                    ctx.solver.pop()
                ctx.oblige(f"C16.{name}.{add}.old_items_kept", Implies(rng(0, k, n0), eq(e.key[-1], k) if hasattr(e, "key") and e.key[0] == lst.key[0] else False), kind="C16")
        out.append(Task(f"C16.{name}.{add}", SPECS[name].cls + "." + add, ["C16"], t_add, kind="obj"))
    for name in ("Data3D", "ForceTorque3D"):
        add, fld, item, nattr = ADD[name]

        def t_assign(interp, name=name, fld=fld, item=item, nattr=nattr):
            """tracks = values: installs exactly the list or raises leaving the previous list object and its content in place"""
            ctx = interp.ctx
            sp, o = _setup(interp, name, SPECS[name].variants[0])
            old = o.fields[fld]
            old_state = (old.items, old.n, old.at)
            nv = z3.Const("nvalues", I)
            ctx.assume(nv >= 0)
            fr = z3.Function("value_frames", I, I)
            tr = z3.Function("value_is_track", I, B)
            vals = VList(None, nv, lambda k: _dyn_item(interp, item, "values", (zint(k),), fr(zint(k)), tr(zint(k))), label="values")
            vals.key = ("values",)
            cls = SPECS[name].klass(interp)
            prop, _ = cls.lookup("tracks")
            f = prop.fset
            interp.inline_only.add(f.qualname)
            epoch0 = ctx.epoch
            oc = _outcome(interp, lambda: interp.call(f, [o, vals], {}))
            j = ctx.fresh_const("pos")
            good = lambda k: And(tr(k), fr(k) == o.fields[nattr])
            now = o.fields[fld]
            if oc[0] == "raise":
                ctx.oblige(f"C16.{name}.assign.raises_only_if_some_element_is_invalid", z3.Exists([j], zbool(And(rng(0, j, nv), Not(good(j))))), kind="C16")
                ctx.oblige(f"C16.{name}.assign.rollback_restores_the_previous_list_object", now is old, kind="C16")
                ctx.oblige(f"C16.{name}.assign.rollback_previous_list_untouched", (old.items, old.n, old.at) == old_state and not any(w[0] is old for w in interp.writes), kind="C16")
            else:
                ctx.oblige(f"C16.{name}.assign.accepts_only_if_all_elements_valid", Implies(rng(0, j, nv), good(j)), kind="C16")
                ctx.oblige(f"C16.{name}.assign.installs_a_list", isinstance(now, VList), kind="C16")
                if isinstance(now, VList):
                    ctx.oblige(f"C16.{name}.assign.same_length", eq(now.length, nv), kind="C16")
                    ctx.solver.push()
                    ctx.solver.add(zbool(rng(0, j, nv)))
                    try:
                        e = _resolve(ctx, now.elem(j))
                    finally:
                        ctx.solver.pop()
                    ok = isinstance(e, VObj) and hasattr(e, "key") and e.key[0] == "values"
                    ctx.oblige(f"C16.{name}.assign.same_elements_in_order", Implies(rng(0, j, nv), eq(e.key[-1], j) if ok else False), kind="C16")
                    ctx.oblige(f"C20.{name}.assign.installed_list_is_a_new_object", now is not vals and now is not old and now.epoch > epoch0, kind="C20")
        out.append(Task(f"C16.{name}.assign_tracks", SPECS[name].cls + ".tracks.setter", ["C16", "C20"], t_assign, kind="obj"))
    return out


# ================================================================================================ C20
CONTAINERS = {"Data3D": ["_tracks"], "ForceTorque3D": ["_tracks"], "EMG": ["_signals", "_emgMap"], "Events": ["events"], "OpticalSetup": ["channels"],
              "PlatformsCalibration": ["_platforms", "_platformMap"], "PlatformsData": ["_platforms", "_plat_map"]}


def _ctor_args(interp, name):
    """minimal valid positional arguments of the block constructors (no item lists)"""
    ctx = interp.ctx
    fz = lambda n: VFloat(z3.Const(n, I), "f4")
    arr = lambda n, shp: VNd(shp, VDType("f4"), (lambda *i, n=n: z3.Function(n, *([I] * len(shp)), I)(*[zint(x) for x in i])))
    N = z3.Const("ctor_nFrames", I)
    if name == "Data3D":
        return [z3.Const("freq", I), N, arr("vol", (3,)), arr("rot", (3, 3)), arr("tr", (3,))]
    if name == "ForceTorque3D":
        return [z3.Const("freq", I), N, arr("vol", (3,)), arr("rot", (3, 3)), arr("tr", (3,))]
    if name == "EMG":
        return [z3.Const("freq", I), N]
    if name == "PlatformsData":
        return [fz("st"), z3.Const("freq", I), N]
    return []


def c20_tasks():
    out = []
    for name, fields in CONTAINERS.items():
        def t_ctor(interp, name=name, fields=fields):
            ctx = interp.ctx
            npmodel.float_axioms(ctx)
            cls = SPECS[name].klass(interp)
            init, _ = cls.lookup("__init__")
            interp.inline_only.add(init.qualname)
            epoch0 = ctx.epoch
            args = _ctor_args(interp, name)
            a = interp.instantiate(cls, list(args), {})
            b = interp.instantiate(cls, list(args), {})
            for f in fields:
                for tag, obj in (("first", a), ("second", b)):
                    try:
                        v = interp.getattr(obj, f)
                    except PyRaise:
                        ctx.oblige(f"C20.{name}.ctor.{f}.exists", False, kind="C20")
                        continue
                    ctx.oblige(f"C20.{name}.ctor.{f}.{tag}_instance_gets_a_container_created_by_this_call", isinstance(v, (VList, VNd)) and v.epoch > epoch0, kind="C20")
                    if isinstance(v, VList):
                        ctx.oblige(f"C20.{name}.ctor.{f}.{tag}_instance_starts_empty", eq(v.length, 0), kind="C20")
                try:
                    ctx.oblige(f"C20.{name}.ctor.{f}.two_instances_do_not_share_it", interp.getattr(a, f) is not interp.getattr(b, f), kind="C20")
                except PyRaise:
                    pass
        out.append(Task(f"C20.{name}.constructor", SPECS[name].cls + ".__init__", ["C20"], t_ctor, kind="obj"))

        def t_build(interp, name=name, fields=fields):
            ctx = interp.ctx
            from .tasks_codec import BUILD_ATTR
            from .symlayout import layout_atoms
            from .npmodel import VInFile
            from .stream import InStream
            sp, o = _setup(interp, name, SPECS[name].variants[0])
            f = _fn(interp, name, "_build")
            interp.inline_only.add(f.qualname)
            res = []
            for rep in range(2):
                epoch0 = ctx.epoch
                stream = interp.register(VInFile(InStream(layout_atoms(ctx, name, sp.view(o), reading=True))))
                oc = _outcome(interp, lambda: interp.call(f, [stream] + sp.build_args(o), {}))
                if oc[0] == "raise":
                    ctx.oblige(f"C20.{name}.decode.no_exception", False, kind="C20")
                    return
                res.append(oc[1])
                for fl in fields:
                    v = oc[1].fields.get(fl)
                    ctx.oblige(f"C20.{name}.decode.{fl}.container_created_by_this_call", isinstance(v, (VList, VNd)) and v.epoch > epoch0, kind="C20")
            for fl in fields:
                ctx.oblige(f"C20.{name}.decode.{fl}.two_decodes_do_not_share_it", res[0].fields.get(fl) is not res[1].fields.get(fl), kind="C20")
        out.append(Task(f"C20.{name}.decode", SPECS[name].cls + "._build", ["C20"], t_build, kind="obj"))

    def t_event(interp):
        ctx = interp.ctx
        mod = interp.loader.import_module(interp, "basictdf.tdfEvents")
        cls = mod.ns["Event"]
        init, _ = cls.lookup("__init__")
        interp.inline_only.add(init.qualname)
        lab = sym_text(ctx, "evl")
        epoch0 = ctx.epoch
        a = interp.instantiate(cls, [lab], {})
        b = interp.instantiate(cls, [lab], {})
        ctx.oblige("C20.Event.default_values_not_shared", a.fields["values"] is not b.fields["values"], kind="C20")
        ctx.oblige("C20.Event.default_values_created_by_this_call", getattr(a.fields["values"], "epoch", 0) > epoch0, kind="C20")
    out.append(Task("C20.Event.constructor", "basictdf.tdfEvents.Event.__init__", ["C20"], t_event, kind="obj"))
    return out


# ================================================================================================ C19
def _sym_array(ctx, name):
    """ndarray of any rank and shape"""
    r = z3.Const(name + ".rank", I)
    d = z3.Function(name + ".dim", I, I)
    ctx.assume(r >= 0)
    j = z3.Const(name + ".j", I)
    ctx.assume(z3.ForAll([j], d(j) >= 0))
    nd = VNd((), VDType("f8"), lambda *i: z3.IntVal(0))
    nd.symshape = VShape(r, lambda i: d(zint(i)))
    return nd, r, d


def _kinds(ctx, name):
    """(kind, value, facts) for every kind of object the property lists"""
    nd, r, d = _sym_array(ctx, name)
    n = z3.Const(name + ".len", I)
    ctx.assume(n >= 0)
    el = z3.Function(name + ".el", I, I)
    yield "ndarray", nd, dict(rank=r, dim=d)
    yield "list", VList(None, n, lambda k: el(zint(k))), dict(len=n)
    yield "tuple", SymTuple(n, lambda k: el(zint(k))), dict(len=n)
    yield "None", None, {}
    yield "str", sym_text(ctx, name + ".s"), {}
    yield "int", z3.Const(name + ".i", I), {}
    yield "float", VFloat(z3.Const(name + ".f", I), "py"), {}


class SymTuple:
    """tuple of symbolic length"""

    py_type = "tuple"

    def __init__(self, n, at):
        self.n, self.at = n, at

    def py_len(self, interp):
        return self.n


def shape_is(facts, shp):
    return And(facts["rank"] == len(shp), *[facts["dim"](i) == s for i, s in enumerate(shp)])


KINDS = ["ndarray", "list", "tuple", "None", "str", "int", "float"]


def _kind(ctx, name, kind):
    for k, val, facts in _kinds(ctx, name):
        if k == kind:
            return val, facts
    raise KeyError(kind)


def _vp(interp):
    ctx = interp.ctx
    assume = []
    vp = SPECS["Viewport"].make(interp, "vp", (), assume)
    for a in assume:
        ctx.assume(a)
    return vp


def _site_task(out, label, qual, mkargs, pos, kind, should_fn, what):
    """one validated constructor argument x one kind of object: accepted <=> the property's predicate"""
    def run(interp):
        ctx = interp.ctx
        mod, cn = qual.rsplit(".", 1)
        cls = interp.loader.import_module(interp, mod).ns[cn]
        init, _ = cls.lookup("__init__")
        interp.inline_only.add(init.qualname)
        vp = _vp(interp)
        if kind == "CameraViewPort":
            val, facts = vp, {}
        else:
            val, facts = _kind(ctx, "arg", kind)
        args = mkargs(interp, vp)
        args[pos] = val
        ctx.epoch += 1
        oc = _outcome(interp, lambda: interp.instantiate(cls, args, {}))
        should = should_fn(kind, facts)
        tag = f"C19.{label}.{kind}"
        if oc[0] == "raise":
            ctx.oblige(f"{tag}.refused_only_if_not_{what}({oc[1].cls.name})", Not(should), kind="C19")
        else:
            ctx.oblige(f"{tag}.accepted_only_if_{what}", should, kind="C19")
    out.append(Task(f"C19.{label}.{kind}", qual + ".__init__", ["C19"], run, kind="obj"))


def c19_tasks():
    out = []
    f4 = lambda n, shp: VNd(shp, VDType("f4"), lambda *i: z3.Function("g_" + n, *([I] * len(shp)), I)(*[zint(x) for x in i]))
    f8 = lambda n, shp: VNd(shp, VDType("f8"), lambda *i: z3.Function("g_" + n, *([I] * len(shp)), I)(*[zint(x) for x in i]))
    arr_only = lambda shp: (lambda kind, facts: shape_is(facts, shp) if kind == "ndarray" else False)
    for blockname, qual in (("Data3D", "basictdf.tdfData3D.Data3D"), ("ForceTorque3D", "basictdf.tdfForce3D.ForceTorque3D")):
        mk = lambda interp, vp: [z3.Const("freq", I), z3.Const("nF", I), f4("vol", (3,)), f4("rot", (3, 3)), f4("tr", (3,))]
        for which, pos, shp in (("volume", 2, (3,)), ("rotationMatrix", 3, (3, 3)), ("translationVector", 4, (3,))):
            for kind in KINDS:
                _site_task(out, f"{blockname}.{which}", qual, mk, pos, kind, arr_only(shp), f"an_ndarray_of_shape_{shp}")

    def mkcal(interp, vp):
        mod = interp.loader.import_module(interp, "basictdf.tdfCalibrationData")
        dm = mod.ns["DistorsionModel"].members["KaliDistorsion"]
        cmap = VNd((z3.Const("ncam", I),), VDType("i2"), lambda i: z3.Function("cmap", I, I)(zint(i)))
        interp.ctx.assume(cmap.shape[0] >= 0)
        return [dm, f4("vol", (3,)), f4("rot", (3, 3)), f4("tr", (3,)), cmap, VList([])]
    for which, pos, shp in (("calibration_volume_size", 1, (3,)), ("calibration_volume_rotation_matrix", 2, (3, 3)), ("calibration_volume_translation_vector", 3, (3,))):
        for kind in KINDS:
            _site_task(out, f"Calibration.{which}", "basictdf.tdfCalibrationData.CalibrationDataBlock", mkcal, pos, kind, arr_only(shp), f"an_ndarray_of_shape_{shp}")
    SL = [("rotation_matrix", (3, 3)), ("translation_vector", (3,)), ("focus", (2,)), ("optical_center", (2,)), ("radial_distortion", (2,)), ("decentering", (2,)), ("thin_prism", (2,))]
    mksl = lambda interp, vp: [f8(nm, s) for nm, s in SL] + [vp]
    for pos, (which, shp) in enumerate(SL):
        for kind in KINDS:
            _site_task(out, f"SeelabCamera.{which}", "basictdf.tdfCalibrationData.SeelabCameraData", mksl, pos, kind, arr_only(shp), f"an_ndarray_of_shape_{shp}")
    okvp = lambda interp, vp: [VNd((2,), VDType("i4"), lambda i: z3.Function("okvp", I, I)(zint(i))) for _ in range(2)]

    def pair(kind, facts):
        if kind == "ndarray":
            return shape_is(facts, (2,))
        if kind in ("list", "tuple"):
            return facts["len"] == 2
        return False
    for which, pos in (("origin", 0), ("size", 1)):
        for kind in KINDS:
            _site_task(out, f"Viewport.{which}", "basictdf.tdfTypes.CameraViewPort", okvp, pos, kind, pair, "a_two_element_list_tuple_or_array")
    vpok = lambda kind, facts: True if kind == "CameraViewPort" else (shape_is(facts, (2, 2)) if kind == "ndarray" else False)
    for label, qual, mk, pos in (("SeelabCamera.view_port", "basictdf.tdfCalibrationData.SeelabCameraData", mksl, 7),
                                 ("BTSCamera.view_port", "basictdf.tdfCalibrationData.BTSCameraData",
                                  lambda interp, vp: [f8("r", (3, 3)), f8("t", (3,)), f8("f", (2,)), f8("c", (2,)), f8("x", (70,)), f8("y", (70,)), vp], 6),
                                 ("OpticalChannel.camera_viewport", "basictdf.tdfOpticalSystem.OpticalChannelData",
                                  lambda interp, vp: [z3.Const("lci", I), sym_text(interp.ctx, "ln"), sym_text(interp.ctx, "ct"), sym_text(interp.ctx, "cn"), vp], 4)):
        for kind in KINDS + ["CameraViewPort"]:
            _site_task(out, label, qual, mk, pos, kind, vpok, "a_CameraViewPort_or_2x2_array")

    def t_coupled(interp):
        ctx = interp.ctx
        mod = interp.loader.import_module(interp, "basictdf.tdfForce3D")
        cls = mod.ns["ForceTorqueTrack"]
        init, _ = cls.lookup("__init__")
        interp.inline_only.add(init.qualname)
        arrs = [_sym_array(ctx, nm) for nm in ("ap", "force", "torque")]
        oc = _outcome(interp, lambda: interp.instantiate(cls, [sym_text(ctx, "lab")] + [a[0] for a in arrs], {}))
        (a, ra, da), (f, rf, df), (t, rt, dt) = arrs
        j = z3.Const("cj", I)
        same = lambda r1, d1, r2, d2: And(r1 == r2, z3.ForAll([j], z3.Implies(z3.And(0 <= j, j < r1), d1(j) == d2(j))))
        should = And(ra == 2, da(1) == 3, same(ra, da, rf, df), same(ra, da, rt, dt))
        if oc[0] == "raise":
            ctx.oblige("C19.ForceTorqueTrack.refused_only_if_shapes_are_not_three_equal_(n,3)", Not(should), kind="C19")
        else:
            ctx.oblige("C19.ForceTorqueTrack.accepted_only_if_three_equal_(n,3)_arrays", should, kind="C19")
    out.append(Task("C19.ForceTorqueTrack.coupled_arrays", "basictdf.tdfForce3D.ForceTorqueTrack.__init__", ["C19"], t_coupled, kind="obj"))

    def t_event(kind_name):
        def run(interp):
            """Event(label, values, type): refuses non-iterables and more than one value for a single event"""
            ctx = interp.ctx
            mod = interp.loader.import_module(interp, "basictdf.tdfEvents")
            cls = mod.ns["Event"]
            init, _ = cls.lookup("__init__")
            interp.inline_only.add(init.qualname)
            ty = mod.ns["EventsDataType"].members[kind_name]
            n = z3.Const("nvals", I)
            ctx.assume(n >= 0)
            for desc, val, iterable, cnt in (("f4_array", VNd((n,), VDType("f4"), lambda i: z3.Function("ev", I, I)(zint(i))), True, n), ("None", None, False, 0),
                                             ("int", z3.Const("evi", I), False, 0), ("float", VFloat(z3.Const("evf", I), "py"), False, 0)):
                oc = _outcome(interp, lambda: interp.instantiate(cls, [sym_text(ctx, "lab" + desc), val, ty], {}))
                should = And(iterable, Or(kind_name != "singleEvent", zint(cnt) <= 1))
                if oc[0] == "raise":
                    ctx.oblige(f"C19.Event[{kind_name}].{desc}.refused_only_if_not_iterable_or_too_many_values", Not(should), kind="C19")
                else:
                    ctx.oblige(f"C19.Event[{kind_name}].{desc}.accepted_only_if_iterable_and_at_most_one_value_for_a_single_event", should, kind="C19")
        return Task(f"C19.Event[{kind_name}]", "basictdf.tdfEvents.Event.__init__", ["C19"], run, kind="obj")
    out.append(t_event("singleEvent"))
    out.append(t_event("eventSequence"))
    return out


def all_tasks():
    return c18_tasks() + c16_tasks() + c20_tasks() + c19_tasks()


def property_config(tasks, select):
    P = {}
    P["C18"] = dict(decisive=select(tasks, ("C18.",)), chain=[], harness=dict(extra=[("harness.obj_checks", "run_c18")]))
    P["C16"] = dict(decisive=select(tasks, ("C16.",)), chain=[], harness=dict(extra=[("harness.obj_checks", "run_c16")]))
    P["C20"] = dict(decisive=select(tasks, ("C20.", "C16.Data3D.assign", "C16.ForceTorque3D.assign")), chain=[], harness=dict(extra=[("harness.obj_checks", "run_c20")]))
    P["C19"] = dict(decisive=select(tasks, ("C19.",)), chain=[], harness=dict(extra=[("harness.obj_checks", "run_c19")]))
    return P
