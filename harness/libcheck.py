"""Differential validation of the ASSUMED library contracts (DESIGN.md 3) against the real libraries of this sandbox.
Bounded / exhaustive where the domain is finite.  A failure here means an assumption of the proofs is wrong: the checks
report it as a checker error (exit 3), never as a property violation."""
import ast
import glob
import io
import itertools
import os
import struct
import time
import warnings
from datetime import datetime

import numpy as np


def _f(what, msg):
    return dict(kind="libcheck." + what, layout="library", message=msg, repro=dict(what=what), recipe=dict(kind="libcheck"))


def check_cp1252():
    """per-character codec axioms, exhaustively over all code points and all bytes"""
    fails = []
    enc = {}
    for cp in range(0x110000):
        if 0xD800 <= cp <= 0xDFFF:
            continue
        try:
            b = chr(cp).encode("cp1252")
        except UnicodeEncodeError:
            continue
        if len(b) != 1:
            fails.append(_f("cp1252", f"U+{cp:04X} encodes to {len(b)} bytes"))
            continue
        enc[cp] = b[0]
        if (b[0] == 0) != (cp == 0):
            fails.append(_f("cp1252", f"E(U+{cp:04X}) = {b[0]}: zero byte iff NUL violated"))
        if b.decode("cp1252") != chr(cp):
            fails.append(_f("cp1252", f"D(E(U+{cp:04X})) != itself"))
        if cp < 128 and b[0] != cp:
            fails.append(_f("cp1252", f"ASCII {cp} not the identity"))
    for cp in range(128):
        if cp not in enc:
            fails.append(_f("cp1252", f"ASCII {cp} not encodable"))
    undec = []
    for b in range(256):
        try:
            c = bytes([b]).decode("cp1252")
            if len(c) != 1 or c.encode("cp1252") != bytes([b]):
                fails.append(_f("cp1252", f"E(D({b})) != {b}"))
        except UnicodeDecodeError:
            undec.append(b)
    for a in ("windows-1252", "cp1252"):
        if "é".encode(a) != b"\xe9":
            fails.append(_f("cp1252", f"alias {a}"))
    return dict(encodable=len(enc), undecodable_bytes=undec), fails


def check_runs(nmax):
    """masked_invalid + clump_unmasked = maximal runs of non-NaN entries, for ALL masks up to nmax"""
    from harness.refcodec import runs_of
    fails = []
    n_masks = 0
    for n in range(1, nmax + 1):
        for bits in range(2 ** n):
            a = np.array([1.5 if (bits >> i) & 1 else np.nan for i in range(n)], dtype="<f4")
            got = [(s.start, s.stop - s.start) for s in np.ma.clump_unmasked(np.ma.masked_invalid(a))]
            want = [(r.start, r.len) for r in runs_of(a)]
            n_masks += 1
            if got != want:
                fails.append(_f("clump_unmasked", f"mask {bits:b} of {n}: {got} vs maximal runs {want}"))
            a2 = np.stack([a, a, a], axis=1)
            got2 = [(s.start, s.stop - s.start) for s in np.ma.clump_unmasked(np.ma.masked_invalid(a2).T[0])]
            if got2 != want:
                fails.append(_f("clump_unmasked", f"2-D column 0, mask {bits:b} of {n}"))
    return dict(masks=n_masks, nmax=nmax), fails


def repo_dtype_specs(src_root):
    specs = set()
    for p in glob.glob(os.path.join(src_root, "basictdf", "*.py")):
        tree = ast.parse(open(p).read())
        for node in ast.walk(tree):
            if isinstance(node, ast.Call) and isinstance(node.func, ast.Attribute) and node.func.attr == "dtype" and node.args:
                try:
                    specs.add(repr(ast.literal_eval(node.args[0])))
                except Exception:
                    pass
            if isinstance(node, ast.keyword) and node.arg == "dtype":
                try:
                    specs.add(repr(ast.literal_eval(node.value)))
                except Exception:
                    pass
    return sorted(specs)


def check_dtypes(src_root):
    """the dtype-string parser of pyvc agrees with numpy on every dtype specification occurring in the repository"""
    import sys
    sys.path.insert(0, os.path.dirname(os.path.dirname(os.path.abspath(__file__))))
    from pyvc.npmodel import parse_dtype
    from pyvc.core import OutOfReach
    fails = []
    n = 0
    for r in repo_dtype_specs(src_root):
        spec = ast.literal_eval(r)
        try:
            real = np.dtype(spec)
        except Exception:
            continue
        try:
            mine = parse_dtype(spec if not isinstance(spec, list) else [tuple(x) for x in spec])
        except OutOfReach:
            continue            # out of the subset: functions using it are reported out of reach, not mis-modelled
        n += 1
        if mine.itemsize != real.itemsize:
            fails.append(_f("dtype", f"{spec!r}: itemsize {mine.itemsize} vs numpy {real.itemsize}"))
        if real.names:
            if [nm for nm, _ in mine.fields] != list(real.names):
                fails.append(_f("dtype", f"{spec!r}: field names"))
            for nm, f in mine.fields:
                rf = real.fields[nm][0]
                if f.itemsize != rf.itemsize or tuple(f.subshape) != tuple(rf.shape):
                    fails.append(_f("dtype", f"{spec!r}: field {nm}"))
        else:
            if tuple(mine.subshape) != tuple(real.shape) or real.base.str.lstrip("<|=") != mine.kind:
                fails.append(_f("dtype", f"{spec!r}: shape/kind {mine.subshape}/{mine.kind} vs {real.shape}/{real.base.str}"))
    return dict(specs=n), fails


def check_bytes():
    """tobytes / frombuffer / astype: little-endian, row-major, item counts; frombuffer size errors; struct"""
    fails = []
    rngs = {"<i2": (-2**15, 2**15 - 1), "<u2": (0, 2**16 - 1), "<i4": (-2**31, 2**31 - 1), "<u4": (0, 2**32 - 1)}
    fm = {"<i2": "<h", "<u2": "<H", "<i4": "<i", "<u4": "<I", "<f4": "<f", "<f8": "<d"}
    for dt, (lo, hi) in rngs.items():
        for v in (lo, hi, 0, 1, -1 if lo < 0 else 2):
            if np.array(v, dtype=dt).tobytes() != struct.pack(fm[dt], v):
                fails.append(_f("tobytes", f"{dt} scalar {v}"))
        a = np.array([lo, 0, hi, 1, 2, 3], dtype=dt).reshape(2, 3)
        if a.tobytes() != b"".join(struct.pack(fm[dt], int(x)) for x in a.reshape(-1)):
            fails.append(_f("tobytes", f"{dt} row-major"))
        if not np.array_equal(np.frombuffer(a.tobytes(), dtype=dt), a.reshape(-1)):
            fails.append(_f("frombuffer", dt))
    for dt in ("<f4", "<f8"):
        for v in (0.0, -0.0, 1.5, 1e-40, 3e38 if dt == "<f4" else 1e300):
            if np.array(v, dtype=dt).tobytes() != struct.pack(fm[dt], v):
                fails.append(_f("tobytes", f"{dt} scalar {v}"))
    try:
        np.frombuffer(b"\x00" * 5, dtype="<i4")
        fails.append(_f("frombuffer", "size not a multiple of itemsize accepted"))
    except ValueError:
        pass
    if np.frombuffer(b"\x00" * 24, dtype=np.dtype("3<f4")).shape != (2, 3) or np.frombuffer(b"\x00" * 12, dtype=np.dtype("3<f4"))[0].shape != (3,):
        fails.append(_f("frombuffer", "sub-array dtype shape"))
    rec = np.dtype([("a", "<i4"), ("b", "2<f4")])
    x = np.zeros(2, dtype=rec)
    x["a"] = [1, 2]
    x["b"] = [[1, 2], [3, 4]]
    if x.tobytes() != struct.pack("<iffiff", 1, 1, 2, 2, 3, 4):
        fails.append(_f("tobytes", "structured records are field-by-field per record"))
    pair = np.dtype([("Track1", "<u4"), ("Track2", "<u4")])
    if np.array([(1, 2), (3, 4)], dtype=pair).tobytes() != struct.pack("<IIII", 1, 2, 3, 4) or np.array([], dtype=pair).tobytes() != b"":
        fails.append(_f("array", "a list of tuples is not one record per tuple"))
    if np.asarray(x) is not x or np.asarray(x, dtype=rec) is not x:
        fails.append(_f("asarray", "asarray of an array of the dtype asked for is not that array"))
    e = np.empty(3, dtype=np.dtype([("p", "2<f4"), ("q", "<f4")]))
    e[:] = np.nan
    if not (np.isnan(e["p"]).all() and np.isnan(e["q"]).all()):
        fails.append(_f("fill", "scalar NaN fill of a structured array"))
    a = np.zeros(5, "<f4")
    try:
        a[1:3] = np.ones(3, "<f4")
        fails.append(_f("setitem", "slice store of the wrong length accepted"))
    except ValueError:
        pass
    if b"\x00" * -3 != b"":
        fails.append(_f("bytes", "negative repetition"))
    # comparisons
    n = np.array([1.0, np.nan])
    if np.array_equal(n, n) or not np.array_equal(n, n, equal_nan=True) or np.allclose(n, n) or not np.allclose(n, n, equal_nan=True) or np.all(n == n):
        fails.append(_f("compare", "NaN semantics of array_equal / allclose / =="))
    if np.array_equal(np.zeros(2), np.zeros(3)):
        fails.append(_f("compare", "array_equal on different shapes"))
    return dict(), fails


def check_misc():
    fails = []
    for t in (0, 1, 1_600_000_000, 2**31 - 1):
        if int(datetime.fromtimestamp(t).timestamp()) != t:
            fails.append(_f("datetime", f"fromtimestamp/timestamp round trip of {t}"))
    try:
        struct.pack("<i", 2**31)
        fails.append(_f("struct", "out-of-range int accepted"))
    except struct.error:
        pass
    b = io.BytesIO()
    b.write(b"ab")
    if b.getvalue() != b"ab":
        fails.append(_f("BytesIO", "getvalue"))
    import tempfile
    d = tempfile.mkdtemp(prefix="verif_lib_")
    try:
        p = os.path.join(d, "f.bin")
        open(p, "wb").write(bytes(range(10)))
        with open(p, "r+b") as f:
            f.seek(4)
            t = f.read()
            f.seek(2)
            f.write(t)
            f.truncate()
            f.flush()
            if os.path.getsize(p) != 8:
                fails.append(_f("io", "size after write+truncate+flush"))
        if open(p, "rb").read() != bytes([0, 1, 4, 5, 6, 7, 8, 9]):
            fails.append(_f("io", "tail move"))
        with open(p, "rb") as f:
            try:
                f.write(b"x")
                fails.append(_f("io", "write on a read-only handle accepted"))
            except (io.UnsupportedOperation, OSError):
                pass
        f = open(p, "rb")
        f.close()
        try:
            f.seek(0)
            fails.append(_f("io", "seek on a closed handle accepted"))
        except ValueError:
            pass
    finally:
        import shutil
        shutil.rmtree(d, ignore_errors=True)
    return dict(), fails


def run(seed, tier, root=None):
    warnings.simplefilter("ignore")
    t0 = time.time()
    fails = []
    st = {}
    for nm, fn in (("cp1252", check_cp1252), ("runs", lambda: check_runs(10 if tier == "quick" else 14)), ("dtypes", lambda: check_dtypes(os.path.join(root or "/repo", "src"))),
                   ("bytes", check_bytes), ("misc", check_misc)):
        s, f = fn()
        st[nm] = s
        fails += f
    return dict(what="differential validation of the assumed library contracts (cp1252 exhaustive over all code points, run extraction exhaustive over all masks, dtypes, tobytes/frombuffer, io)",
                cases=st["runs"]["masks"] + st["cp1252"]["encodable"], label="bounded (assumption validation)", detail=st, wall_s=round(time.time() - t0, 2)), fails
