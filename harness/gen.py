"""Generators of *valid* concrete library objects (valid_T of DESIGN.md 3.2) for replay and bounded stand-ins.

All randomness comes from the ``random.Random`` passed in (seeded from VERIF_SEED).  Objects are built through the
library's public constructors / mutators only.
"""
import itertools
import struct

import numpy as np

CP1252 = [c for c in (bytes([b]).decode("cp1252", errors="ignore") for b in range(1, 256)) if c]
SPECIAL_F32 = [0x00000000, 0x80000000, 0x00000001, 0x807FFFFF, 0x7F7FFFFF, 0xFF7FFFFF, 0x3F800000, 0x00800000]


def label(rng, width=256, kind=None):
    kind = kind or rng.choice(["short", "short", "empty", "max", "hi"])
    if kind == "empty":
        return ""
    if kind == "max":
        return "".join(rng.choice(CP1252) for _ in range(width - 1))
    if kind == "hi":
        return "".join(rng.choice("€‚ƒ„…†‡ˆ‰Š‹ŒŽ‘’“”•–—˜™š›œžŸ°é ") for _ in range(rng.randint(1, 12)))
    return "".join(rng.choice(CP1252) for _ in range(rng.randint(1, 10)))


def f32_words(rng, n):
    """n float32 values, never NaN, never +-inf, including special bit patterns"""
    if n > 512:
        w = np.frombuffer(rng.getrandbits(32 * n).to_bytes(4 * n, "little"), dtype="<u4").copy()
        w[(w >> 23) & 0xFF == 0xFF] &= np.uint32(~(1 << 23) & 0xFFFFFFFF)
        return w.view("<f4")
    out = np.empty(n, dtype="<u4")
    for i in range(n):
        if rng.random() < 0.3:
            w = rng.choice(SPECIAL_F32)
        else:
            w = rng.getrandbits(32)
        if (w >> 23) & 0xFF == 0xFF:          # NaN or inf exponent -> make it finite
            w &= ~(1 << 23)
        out[i] = w
    return out.view("<f4")


def f64_words(rng, n):
    out = np.empty(n, dtype="<u8")
    for i in range(n):
        w = rng.getrandbits(64)
        if (w >> 52) & 0x7FF == 0x7FF:
            w &= ~(1 << 52)
        out[i] = w
    return out.view("<f8")


def storage(rng, a):
    """the same values held the way a caller's array may be: other byte order, wider float, Fortran order, strided view.
    Constructors keep the array they are given; what is written must not depend on how the values are stored."""
    r = rng.random()
    if r < 0.70 or a.size == 0:
        return a
    if r < 0.82:
        return a.astype(a.dtype.newbyteorder(">"))
    if r < 0.90 and a.dtype.kind == "f" and a.dtype.itemsize == 4:
        return a.astype("<f8")
    if r < 0.95 and a.ndim == 2:
        return np.asfortranarray(a)
    big = np.zeros((a.shape[0] * 2,) + a.shape[1:], dtype=a.dtype)
    big[::2] = a
    return big[::2]


def f32_scalar(rng):
    return float(f32_words(rng, 1)[0])


def i32(rng):
    return rng.choice([0, 1, 50, 1000, 2**31 - 1, rng.randint(0, 2**31 - 1)])


def mask(rng, n, which=None):
    """presence mask over n frames; ``which`` = integer bit pattern for exhaustive enumeration"""
    if which is None:
        which = rng.getrandbits(n)
    return [(which >> i) & 1 == 1 for i in range(n)]


def gapped(rng, n, width, m):
    """(n, width) float32 array (or (n,) if width == 0) with wholly-missing frames where m[f] is False"""
    a = f32_words(rng, n * max(width, 1)).copy()
    a = a.reshape(n, width) if width else a
    a[~np.asarray(m, dtype=bool)] = np.nan
    return storage(rng, a)


# ----------------------------------------------------------------------------- items
def marker_track(rng, n, m=None, lab=None):
    from basictdf.tdfData3D import MarkerTrack
    return MarkerTrack(label(rng) if lab is None else lab, gapped(rng, n, 3, m or mask(rng, n)))


def emg_track(rng, n, m=None, lab=None):
    from basictdf.tdfEMG import EMGTrack
    return EMGTrack(label(rng) if lab is None else lab, gapped(rng, n, 0, m or mask(rng, n)))


def ft_track(rng, n, m=None, lab=None):
    from basictdf.tdfForce3D import ForceTorqueTrack
    m = m or mask(rng, n)
    return ForceTorqueTrack(label(rng) if lab is None else lab, gapped(rng, n, 3, m), gapped(rng, n, 3, m), gapped(rng, n, 3, m))


def plat_data(rng, n, m=None):
    from basictdf.tdfForcePlatformsData import ForcePlatformData
    m = m or mask(rng, n)
    return ForcePlatformData(gapped(rng, n, 2, m), gapped(rng, n, 3, m), gapped(rng, n, 0, m))


def plat_info(rng, lab=None):
    from basictdf.tdfForcePlatformsCalibration import ForcePlatformInfo
    return ForcePlatformInfo(label(rng) if lab is None else lab, storage(rng, f32_words(rng, 2).copy()), storage(rng, f32_words(rng, 12).reshape(4, 3).copy()))


def viewport(rng, kind=None):
    from basictdf.tdfTypes import CameraViewPort
    kind = kind or rng.choice(["array", "array", "list", "tuple"])
    vals = [rng.choice([0, 1, -1, 640, 2**31 - 1, -2**31]) for _ in range(4)]
    if kind == "array":
        return CameraViewPort(np.array(vals[:2], dtype="<i4"), np.array(vals[2:], dtype="<i4"))
    if kind == "list":
        return CameraViewPort(vals[:2], vals[2:])
    return CameraViewPort(tuple(vals[:2]), tuple(vals[2:]))


def seelab_cam(rng):
    from basictdf.tdfCalibrationData import SeelabCameraData
    return SeelabCameraData(storage(rng, f64_words(rng, 9).reshape(3, 3).copy()), storage(rng, f64_words(rng, 3).copy()), f64_words(rng, 2).copy(),
                            f64_words(rng, 2).copy(), f64_words(rng, 2).copy(), f64_words(rng, 2).copy(),
                            f64_words(rng, 2).copy(), viewport(rng))


def bts_cam(rng, ncoef=None):
    from basictdf.tdfCalibrationData import BTSCameraData
    nx, ny = (ncoef, ncoef) if ncoef is not None else rng.choice([(70, 70), (70, 70), (5, 3), (0, 70), (69, 1)])
    return BTSCameraData(storage(rng, f64_words(rng, 9).reshape(3, 3).copy()), storage(rng, f64_words(rng, 3).copy()), f64_words(rng, 2).copy(),
                         f64_words(rng, 2).copy(), storage(rng, f64_words(rng, nx).copy()), storage(rng, f64_words(rng, ny).copy()), viewport(rng))


def opt_channel(rng):
    from basictdf.tdfOpticalSystem import OpticalChannelData
    vp = viewport(rng)
    if rng.random() < 0.3:
        vp = np.array([[1, 2], [3, 4]], dtype="<i4")
    return OpticalChannelData(rng.choice([0, 1, 7, -1, 2**31 - 1]), label(rng, 32, rng.choice(["short", "empty", "max", "hi"])),
                              label(rng, 32), label(rng, 32), vp)


def event(rng, nvalues=None, kind=None):
    from basictdf.tdfEvents import Event, EventsDataType
    kind = kind if kind is not None else rng.choice(list(EventsDataType))
    if nvalues is None:
        nvalues = rng.choice([0, 1]) if kind == EventsDataType.singleEvent else rng.choice([0, 1, 2, 5])
    vals = f32_words(rng, nvalues).copy()
    if rng.random() < 0.5:
        vals = [float(x) for x in vals]
    return Event(label(rng), vals, kind)


# ----------------------------------------------------------------------------- blocks
def _free_channel(rng, used, lo):
    """None (automatic) or an explicit channel that is not in use"""
    if rng.random() < 0.3:
        return None
    # towards the ends of the 16-bit field (signed / unsigned), leaving room for the automatic channels (max + 1) that follow
    edge = [30000, -32768] if lo < 0 else [32767, 32768, 40000, 65000]
    return rng.choice([c for c in list(range(lo, 40)) + edge if c not in [int(x) for x in used]])


def _geom(rng):
    return storage(rng, f32_words(rng, 3).copy()), storage(rng, f32_words(rng, 9).reshape(3, 3).copy()), storage(rng, f32_words(rng, 3).copy())


def _remap(rng, b, attr, lo):
    """any distinct in-range channel numbers are a valid map -- channel 0 anywhere, negative ones where the field is
    signed -- whatever numbers the add methods of the tree under test would have handed out"""
    m = getattr(b, attr)
    if len(m) and rng.random() < 0.4:
        new = rng.sample(range(lo, lo + len(m) + 3), len(m))
        if 0 in range(lo, lo + len(m) + 3) and 0 not in new and len(new) > 1:
            new[rng.randrange(1, len(new))] = 0
        m[:] = new


def data3d(rng, ntracks=None, n=None, fmt=None, nlinks=None, masks=None):
    from basictdf.tdfData3D import Data3D, Data3dBlockFormat, Flags, LinkType
    ntracks = rng.choice([0, 1, 2, 3]) if ntracks is None else ntracks
    n = rng.randint(1, 6) if n is None else n
    fmt = fmt or rng.choice([Data3dBlockFormat.byTrack, Data3dBlockFormat.byTrackWithoutLinks])
    vol, rot, tr = _geom(rng)
    b = Data3D(i32(rng), n, vol, rot, tr, f32_scalar(rng), rng.choice(list(Flags)), fmt)
    for k in range(ntracks):
        b.add_track(marker_track(rng, n, masks[k] if masks else None))
    if fmt == Data3dBlockFormat.byTrackWithoutLinks and nlinks is None and rng.random() < 0.3:
        # a block switched to the link-less format that still carries the link table it had (not stored, not counted)
        links = np.zeros(rng.choice([1, 2]), dtype=LinkType.btype)
        links[0] = (0, 1)
        b.links = links
    if fmt == Data3dBlockFormat.byTrack:
        nlinks = rng.choice([None, 0, 1, 3]) if nlinks is None else nlinks
        if nlinks is not None:
            links = np.zeros(nlinks, dtype=LinkType.btype)
            for i in range(nlinks):
                links[i] = (rng.randint(0, 2**32 - 1), rng.randint(0, 5))
            # a caller may hand the links over as plain (track, track) pairs: same content, another container
            b.links = [(int(l[0]), int(l[1])) for l in links] if nlinks and rng.random() < 0.3 else links
    return b


def emg(rng, nsig=None, n=None, masks=None):
    from basictdf.tdfEMG import EMG
    nsig = rng.choice([0, 1, 2, 3]) if nsig is None else nsig
    n = rng.randint(1, 6) if n is None else n
    b = EMG(i32(rng), n, f32_scalar(rng))
    for k in range(nsig):
        b.addSignal(emg_track(rng, n, masks[k] if masks else None), channel=_free_channel(rng, b._emgMap, -5))
    _remap(rng, b, "_emgMap", -3)
    return b


def ft3d(rng, ntracks=None, n=None, masks=None):
    from basictdf.tdfForce3D import ForceTorque3D
    ntracks = rng.choice([0, 1, 2, 3]) if ntracks is None else ntracks
    n = rng.randint(1, 6) if n is None else n
    vol, rot, tr = _geom(rng)
    b = ForceTorque3D(i32(rng), n, vol, rot, tr, f32_scalar(rng))
    for k in range(ntracks):
        b.add_track(ft_track(rng, n, masks[k] if masks else None))
    return b


def plats_data(rng, nplat=None, n=None, masks=None):
    from basictdf.tdfForcePlatformsData import ForcePlatformsDataBlock
    nplat = rng.choice([0, 1, 2, 3]) if nplat is None else nplat
    n = rng.randint(1, 6) if n is None else n
    b = ForcePlatformsDataBlock(f32_scalar(rng), i32(rng), n)
    for k in range(nplat):
        b.add_platform(plat_data(rng, n, masks[k] if masks else None), _free_channel(rng, b._plat_map, 0))
    _remap(rng, b, "_plat_map", 0)
    return b


def plats_cal(rng, nplat=None):
    from basictdf.tdfForcePlatformsCalibration import ForcePlatformsCalibrationDataBlock
    nplat = rng.choice([0, 1, 2, 3]) if nplat is None else nplat
    if rng.random() < 0.3:
        return ForcePlatformsCalibrationDataBlock(platforms=[plat_info(rng) for _ in range(nplat)])
    b = ForcePlatformsCalibrationDataBlock()
    for k in range(nplat):
        b.add_platform(plat_info(rng), _free_channel(rng, b._platformMap, -5))
    _remap(rng, b, "_platformMap", -3)
    return b


def data2d(rng, ncams=None, n=None):
    from basictdf.tdfData2D import Data2D, Data2DFlags
    ncams = rng.choice([0, 1, 2, 3]) if ncams is None else ncams
    n = rng.randint(1, 4) if n is None else n
    b = Data2D(ncams, n, i32(rng), f32_scalar(rng), rng.choice(list(Data2DFlags)))
    d = np.empty((n, ncams), dtype=object)
    for f in range(n):
        for c in range(ncams):
            k = rng.choice([None, 1, 2, 3])
            d[f, c] = None if k is None else f32_words(rng, 2 * k).reshape(k, 2).copy()
    b.data = d
    b._camMap = np.array(rng.sample(range(0, 40), ncams), dtype="<u2")
    return b


def calibration(rng, ncams=None, bts=None):
    from basictdf.tdfCalibrationData import CalibrationDataBlock, CalibrationDataBlockFormat, DistorsionModel
    ncams = rng.choice([0, 1, 2, 3]) if ncams is None else ncams
    bts = rng.random() < 0.5 if bts is None else bts
    vol, rot, tr = _geom(rng)
    cams = [bts_cam(rng) if bts else seelab_cam(rng) for _ in range(ncams)]
    return CalibrationDataBlock(rng.choice(list(DistorsionModel)), vol, rot, tr,
                                np.array(rng.sample(range(-5, 40), ncams), dtype="<i2"), cams,
                                CalibrationDataBlockFormat.BTS if bts else CalibrationDataBlockFormat.Seelab1)


def optical(rng, nch=None):
    from basictdf.tdfOpticalSystem import OpticalSetupBlock
    nch = rng.choice([0, 1, 2, 3]) if nch is None else nch
    return OpticalSetupBlock(channels=[opt_channel(rng) for _ in range(nch)])


def events(rng, nev=None):
    from basictdf.tdfEvents import TemporalEventsData
    nev = rng.choice([0, 1, 2, 3]) if nev is None else nev
    b = TemporalEventsData(start_time=f32_scalar(rng))
    b.events = [event(rng) for _ in range(nev)]
    return b


BLOCK_GEN = {"Data3D": data3d, "EMG": emg, "ForceTorque3D": ft3d, "PlatformsData": plats_data,
             "PlatformsCalibration": plats_cal, "Data2D": data2d, "Calibration": calibration,
             "OpticalSetup": optical, "Events": events}
TRACK_GEN = {"MarkerTrack": marker_track, "EMGTrack": emg_track, "ForceTorqueTrack": ft_track, "PlatformData": plat_data}
TRACK_BLOCK = {"MarkerTrack": data3d, "EMGTrack": emg, "ForceTorqueTrack": ft3d, "PlatformData": plats_data}
ITEM_GEN = {"PlatformInfo": plat_info, "Viewport": viewport, "SeelabCamera": seelab_cam, "BTSCamera": bts_cam,
            "OpticalChannel": opt_channel, "Event": event}


# ----------------------------------------------------------------------------- large objects (counts past 16-bit limits)
def large(name, seed):
    """valid blocks whose counts cross 2**15 / 2**16 (frames, samples, points, values): numpy-generated, deterministic"""
    r = np.random.default_rng([seed, sum(map(ord, name))])
    n = 70000 + int(r.integers(0, 50))

    def holes(a):
        for lo, ln in ((0, 3), (100, 100), (40000, 10), (n - 2, 2)):
            if r.random() < 0.7:
                a[lo:lo + ln] = np.nan
        return a
    f4 = lambda *shape: r.standard_normal(shape).astype("<f4")
    if name == "Data2D":
        from basictdf.tdfData2D import Data2D, Data2DFlags
        nc, nf = 3, 40
        b = Data2D(nc, nf, 100, 0.0, Data2DFlags.with_distortion)
        d = np.empty((nf, nc), dtype=object)
        for f in range(nf):
            for c in range(nc):
                d[f, c] = f4(int(r.integers(850, 950)), 2) if r.random() > 0.1 else None
        d[nf - 1, 1] = f4(8192 + int(r.integers(1, 900)), 2)          # one cell whose byte count does not fit 16 bits
        b.data = d
        b._camMap = np.array([2, 0, 1], dtype="<u2")
        return b
    if name == "EMG":
        from basictdf.tdfEMG import EMG, EMGTrack
        b = EMG(1000, n)
        for i in range(2):
            b.addSignal(EMGTrack(f"s{i}", holes(f4(n))))
        return b
    if name == "Data3D":
        from basictdf.tdfData3D import Data3D, MarkerTrack
        b = Data3D(100, n, np.zeros(3, "<f4"), np.eye(3, dtype="<f4"), np.zeros(3, "<f4"))
        for i in range(2):
            b.add_track(MarkerTrack(f"m{i}", holes(f4(n, 3))))
        return b
    if name == "ForceTorque3D":
        from basictdf.tdfForce3D import ForceTorque3D, ForceTorqueTrack
        b = ForceTorque3D(100, n, np.zeros(3, "<f4"), np.eye(3, dtype="<f4"), np.zeros(3, "<f4"))
        ap = holes(f4(n, 3))
        gap = np.isnan(ap[:, 0])
        fo, to = f4(n, 3), f4(n, 3)
        fo[gap] = np.nan
        to[gap] = np.nan
        b.add_track(ForceTorqueTrack("ft", ap, fo, to))
        return b
    if name == "PlatformsData":
        from basictdf.tdfForcePlatformsData import ForcePlatformsDataBlock, ForcePlatformData
        b = ForcePlatformsDataBlock(0.0, 100, n)
        ap = holes(f4(n, 2))
        gap = np.isnan(ap[:, 0])
        fo, to = f4(n, 3), f4(n)
        fo[gap] = np.nan
        to[gap] = np.nan
        b.add_platform(ForcePlatformData(ap, fo, to))
        return b
    if name == "Events":
        from basictdf.tdfEvents import TemporalEventsData, Event, EventsDataType
        b = TemporalEventsData(start_time=0.5)
        b.events = [Event("many", f4(n), EventsDataType.eventSequence), Event("one", [1.5], EventsDataType.singleEvent)]
        return b
    raise KeyError(name)


LARGE = ["Data2D", "EMG", "Data3D", "ForceTorque3D", "PlatformsData", "Events"]
