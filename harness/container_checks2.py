"""Executable contracts for C08 (access modes) and C17 (create / copy / open) on the real code (bounded)."""
import hashlib
import os
import random
import shutil
import tempfile
import warnings

from harness import gen
from harness.capture import parse_table
from harness.container_checks import _f, SETTER, TYPE_OF, make_file, comment_raw


def _sha(p):
    return hashlib.sha256(open(p, "rb").read()).hexdigest()


def _age(path, secs=1_500_000_000):
    """set every date of the header and of the table entries to an old instant (independent struct patch): a reader that
    refreshes an access date then changes bytes for sure, whatever the resolution of the clock"""
    import struct
    raw = bytearray(open(path, "rb").read())
    n = struct.unpack_from("<i", raw, 20)[0]
    struct.pack_into("<iii", raw, 32, secs, secs, secs)
    for i in range(n):
        struct.pack_into("<iii", raw, 64 + 288 * i + 16, secs, secs + 1, secs + 2)
    open(path, "wb").write(bytes(raw))


def _file_with_blocks(d, rng, name="a.tdf"):
    from basictdf import Tdf
    p = os.path.join(d, name)
    Tdf.new(p)
    with Tdf(p).allow_write() as t:
        t.add_block(gen.events(rng, 2))
        t.add_block(gen.emg(rng, 2, 4))
    return p


def mutators(rng, stored=None):
    from basictdf.tdfBlock import BlockType
    same = {}
    if stored:
        # the request carries exactly what the file already holds: still a mutation request, refused like any other
        same = {"replace_block(the stored block)": lambda t: t.replace_block(stored["events"]),
                "events=(the stored block)": lambda t: setattr(t, "events", stored["events"]),
                "emg=(the stored block)": lambda t: setattr(t, "emg", stored["emg"])}
    return {**same, **{
        "add_block": lambda t: t.add_block(gen.optical(rng, 1)),
        "remove_block": lambda t: t.remove_block(BlockType.temporalEventsData),
        "replace_block": lambda t: t.replace_block(gen.events(rng, 1)),
        "data3D=": lambda t: setattr(t, "data3D", gen.data3d(rng, 1, 3)),
        "force_and_torque=": lambda t: setattr(t, "force_and_torque", gen.ft3d(rng, 1, 3)),
        "force_platforms_data=": lambda t: setattr(t, "force_platforms_data", gen.plats_data(rng, 1, 3)),
        "events=": lambda t: setattr(t, "events", gen.events(rng, 1)),
        "emg=": lambda t: setattr(t, "emg", gen.emg(rng, 1, 3)),
    }}


def readers():
    from basictdf.tdfBlock import BlockType
    return {
        "blocks": lambda t, o: t.blocks, "get_block(type)": lambda t, o: t.get_block(BlockType.temporalEventsData), "get_block(0)": lambda t, o: t.get_block(0),
        "[type]": lambda t, o: t[BlockType.electromyographicData], "events": lambda t, o: t.events, "emg": lambda t, o: t.emg, "has_events": lambda t, o: t.has_events,
        "has_data3D": lambda t, o: t.has_data3D, "has_emg": lambda t, o: t.has_emg, "has_force_and_torque": lambda t, o: t.has_force_and_torque,
        "has_force_platforms_data": lambda t, o: t.has_force_platforms_data, "nBytes": lambda t, o: t.nBytes, "==": lambda t, o: t == o, "repr": lambda t, o: repr(t),
        "data3D(absent)": lambda t, o: t.data3D, "force_and_torque(absent)": lambda t, o: t.force_and_torque, "calibrationData(absent)": lambda t, o: t.calibrationData,
        "get_block(absent)": lambda t, o: t.get_block(BlockType.data3D), "get_block(99)": lambda t, o: t.get_block(99),
    }


def check_c08(seed, tier, root=None):
    from basictdf import Tdf
    warnings.simplefilter("ignore")
    fails, n = [], 0
    rng = random.Random(f"{seed}:c08")
    d = tempfile.mkdtemp(prefix="verif_c08_")
    try:
        base = _file_with_blocks(d, rng)
        _age(base)
        other = os.path.join(d, "other.tdf")
        shutil.copyfile(base, other)
        work = os.path.join(d, "w.tdf")

        def fresh():
            shutil.copyfile(base, work)
            return Tdf(work)

        def prepare(mode):
            """returns (tdf, enter?) for a refused-mutation mode; 'enter' = run the call inside `with tdf:`"""
            t = fresh()
            if mode == "no context":
                return t, False
            if mode == "allow_write without context":
                t.allow_write()
                return t, False
            if mode == "read-only context":
                return t, True
            if mode == "context after a write context":
                with t.allow_write():
                    pass
                return t, True
            if mode == "no context after a write context":
                with t.allow_write():
                    pass
                return t, False
            if mode == "context after a write context left by an exception":
                try:
                    with t.allow_write() as tt:
                        tt.add_block(gen.events(rng, 0))      # duplicate type: raises
                except Exception:
                    pass
                return t, True
            if mode == "no context after a failed reader":
                t.allow_write()
                try:
                    t.data3D                                   # absent: raises inside the implicit context
                except Exception:
                    pass
                return t, False
            if mode == "no context after reading":
                t.allow_write()
                t.has_events
                _ = t.events
                return t, False
            if mode == "allow_write called inside a plain context":
                return t, "late"
            if mode == "plain context after allow_write and an implicit reader context":
                t.allow_write()
                t.has_events                                   # opens and leaves a context of its own: the permission is used up
                return t, True
            if mode == "plain context after allow_write and a failed implicit reader":
                t.allow_write()
                try:
                    t.data3D
                except Exception:
                    pass
                return t, True
            raise KeyError(mode)
        refused_modes = ["no context", "allow_write without context", "read-only context", "context after a write context", "no context after a write context",
                         "context after a write context left by an exception", "no context after a failed reader", "no context after reading",
                         "plain context after allow_write and an implicit reader context", "plain context after allow_write and a failed implicit reader",
                         "allow_write called inside a plain context"]
        stored = dict(events=Tdf(base).events, emg=Tdf(base).emg)
        for mname, call in mutators(rng, stored).items():
            for mode in refused_modes:
                n += 1
                case = dict(mutator=mname, mode=mode)
                try:
                    t, enter = prepare(mode)
                except Exception as e:
                    fails.append(_f("C08", "C08.setup", f"preparing mode '{mode}' raised {e!r}", case, seed))
                    continue
                before = _sha(work)
                raised = False
                try:
                    if enter == "late":
                        with t:                        # the context was entered read-only: asking for write access now comes too late
                            t.allow_write()
                            call(t)
                    elif enter:
                        with t:
                            call(t)
                    else:
                        call(t)
                except Exception:
                    raised = True
                after = _sha(work)
                if after != before:
                    fails.append(_f("C08", "C08.modified", f"{mname} issued in mode '{mode}' changed the file", case, seed))
                elif not raised:
                    fails.append(_f("C08", "C08.not_refused", f"{mname} issued in mode '{mode}' did not raise", case, seed))
            # the write context must work
            n += 1
            t = fresh()
            before = _sha(work)
            try:
                with t.allow_write() as tt:
                    call(tt)
                if _sha(work) == before:
                    fails.append(_f("C08", "C08.write_context", f"{mname} inside a write context did not change the file", dict(mutator=mname, mode="write context"), seed))
            except Exception as e:
                fails.append(_f("C08", "C08.write_context", f"{mname} inside a write context raised {e!r}", dict(mutator=mname, mode="write context"), seed))
        # readers never modify, in any mode, and close what they open
        for rname, call in readers().items():
            for mode in ("no context", "allow_write without context", "read-only context", "write context"):
                n += 1
                case = dict(reader=rname, mode=mode)
                t = fresh()
                o = Tdf(other)
                before, before_o = _sha(work), _sha(other)
                try:
                    if mode == "no context":
                        call(t, o)
                    elif mode == "allow_write without context":
                        t.allow_write()
                        call(t, o)
                    elif mode == "read-only context":
                        with t:
                            call(t, o)
                    else:
                        with t.allow_write():
                            call(t, o)
                except Exception:
                    pass
                if _sha(work) != before or _sha(other) != before_o:
                    fails.append(_f("C08", "C08.reader_modified", f"reader {rname} in mode '{mode}' changed a file", case, seed))
                for obj, nm in ((t, "the object read"), (o, "the other operand")):
                    h = getattr(obj, "handler", None)
                    if h is not None and not h.closed:
                        fails.append(_f("C08", "C08.handle_open", f"after reader {rname} in mode '{mode}' the handle of {nm} is still open", case, seed))
                    if getattr(obj, "_inside_context", False):
                        fails.append(_f("C08", "C08.handle_open", f"after reader {rname} in mode '{mode}' {nm} still believes it is inside a context", case, seed))
        # a well-formed file with unclaimed bytes after its last block: readers leave those alone too, in every mode
        padded = os.path.join(d, "padded.tdf")
        for rname, call in readers().items():
            for mode in ("allow_write without context", "write context", "read-only context", "no context"):
                n += 1
                case = dict(reader=rname, mode=mode + ", file with bytes after the last block")
                open(padded, "wb").write(open(base, "rb").read() + bytes(range(40)))
                t, o = Tdf(padded), Tdf(other)
                before = _sha(padded)
                try:
                    if mode == "no context":
                        call(t, o)
                    elif mode == "allow_write without context":
                        t.allow_write()
                        call(t, o)
                    elif mode == "read-only context":
                        with t:
                            call(t, o)
                    else:
                        with t.allow_write():
                            call(t, o)
                except Exception:
                    pass
                if _sha(padded) != before:
                    fails.append(_f("C08", "C08.reader_modified", f"reader {rname} in mode '{mode}' changed a file that has bytes after its last block ({os.path.getsize(padded)} bytes now)", case, seed))
        # an object that has genuinely written before: its readers still never write (dates in the file made old again first,
        # so that any refreshed date shows whatever the resolution of the clock)
        for rname, call in readers().items():
            for mode in ("allow_write without context", "write context", "read-only context", "no context"):
                n += 1
                case = dict(reader=rname, mode=mode + ", on an object that wrote before")
                t = fresh()
                o = Tdf(other)
                try:
                    with t.allow_write() as tt:
                        tt.add_block(gen.optical(rng, 1))
                        tt.remove_block(tt.entries[0].type)
                except Exception as e:
                    fails.append(_f("C08", "C08.setup", f"preparing an object that wrote before raised {e!r}", case, seed))
                    break
                _age(work)
                before = _sha(work)
                try:
                    if mode == "no context":
                        call(t, o)
                    elif mode == "allow_write without context":
                        t.allow_write()
                        call(t, o)
                    elif mode == "read-only context":
                        with t:
                            call(t, o)
                    else:
                        with t.allow_write():
                            call(t, o)
                except Exception:
                    pass
                if _sha(work) != before:
                    fails.append(_f("C08", "C08.reader_modified", f"reader {rname} in mode '{mode}' changed the file (the object had written to it in an earlier context)", case, seed))
        # copy is a reader of the source
        n += 1
        t = fresh()
        before = _sha(work)
        c = t.copy(os.path.join(d, "copy.tdf"))
        if _sha(work) != before:
            fails.append(_f("C08", "C08.reader_modified", "copy changed its source", dict(reader="copy"), seed))
        # the object returned by copy is a new handle: no allow_write() was called on it, so it refuses mutations
        # however write-enabled the source was when the copy was taken
        for how in ("inside a write context", "after allow_write without context", "from a read-only handle"):
            for mname, call in mutators(rng).items():
                n += 1
                case = dict(mutator=mname, mode="copy taken " + how)
                cpath = os.path.join(d, "copy2.tdf")
                if os.path.exists(cpath):
                    os.remove(cpath)
                t = fresh()
                try:
                    if how == "inside a write context":
                        with t.allow_write() as tt:
                            c = tt.copy(cpath)
                    elif how == "after allow_write without context":
                        t.allow_write()
                        c = t.copy(cpath)
                    else:
                        c = t.copy(cpath)
                except Exception as e:
                    fails.append(_f("C08", "C08.setup", f"copy {how} raised {e!r}", case, seed))
                    break
                before = _sha(cpath)
                raised = False
                try:
                    with c:
                        call(c)
                except Exception:
                    raised = True
                if _sha(cpath) != before:
                    fails.append(_f("C08", "C08.modified", f"{mname} in a plain context on a copy taken {how} changed the copy (no allow_write() was called on it)", case, seed))
                elif not raised:
                    fails.append(_f("C08", "C08.not_refused", f"{mname} in a plain context on a copy taken {how} did not raise", case, seed))
    finally:
        shutil.rmtree(d, ignore_errors=True)
    return dict(what="every mutator x refused access mode, every reader x mode, on a real file (sha256 before/after, handle state)", cases=n, label="bounded",
                bound="8 mutators x 8 refused modes + write context; 19 readers x 4 modes; 8 mutators on copies taken in 3 modes"), fails


def check_c17(seed, tier, root=None):
    from basictdf import Tdf
    warnings.simplefilter("ignore")
    fails, n = [], 0
    rng = random.Random(f"{seed}:c17")
    d = tempfile.mkdtemp(prefix="verif_c17_")
    try:
        src = _file_with_blocks(d, rng, "src.tdf")
        targets = {"existing TDF": open(src, "rb").read(), "existing non-TDF": b"hello world, not a tdf", "existing empty file": b"",
                   "existing short garbage": b"\x82K", "existing large": bytes(rng.randrange(256) for _ in range(5000))}
        for what, content in targets.items():
            for op in ("new", "copy"):
                n += 1
                p = os.path.join(d, f"t_{op}_{abs(hash(what)) % 1000}.bin")
                open(p, "wb").write(content)
                case = dict(op=op, target=what)
                try:
                    if op == "new":
                        Tdf.new(p)
                    else:
                        Tdf(src).copy(p)
                    fails.append(_f("C17", "C17.clobber", f"{op} onto an {what} did not raise", case, seed))
                except FileExistsError:
                    pass
                except Exception as e:
                    fails.append(_f("C17", "C17.clobber", f"{op} onto an {what} raised {e!r} instead of FileExistsError", case, seed))
                if not os.path.exists(p):
                    fails.append(_f("C17", "C17.clobber", f"{op} onto an {what} removed that file", case, seed))
                elif open(p, "rb").read() != content:
                    fails.append(_f("C17", "C17.clobber", f"{op} onto an {what} changed that file ({len(content)} -> {os.path.getsize(p)} bytes)", case, seed))
        # frame over the whole directory: a successful new / copy creates exactly the path it was given, a refused one
        # creates nothing, and neither touches any other file -- for names with, without and with another extension,
        # next to siblings that differ only in the extension
        def dir_state(dd):
            return {f: _sha(os.path.join(dd, f)) for f in sorted(os.listdir(dd))}
        for stem in ("trial01", "trial01.tdf", "trial01.TDF", "trial01.bin", "trial01.tdf.bak", ".hidden", "n" * 236 + ".tdf", "x" * 250, "日本語の試験.tdf", "Ωmega trial.tdf"):
            for op in ("new", "copy"):
                for present in (False, True):
                    n += 1
                    d2 = tempfile.mkdtemp(prefix="frame_", dir=d)
                    for sib in ("trial01", "trial01.tdf", "trial01.TDF", "trial01.bin", "trial01.tdf.bak", ".hidden", "trial01.tdf.tdf", "trial01.bin.tdf"):
                        if sib != stem or present:
                            shutil.copyfile(src, os.path.join(d2, sib)) if (len(sib) % 2) else open(os.path.join(d2, sib), "wb").write(b"sibling " + sib.encode())
                    if present and not os.path.exists(os.path.join(d2, stem)):
                        shutil.copyfile(src, os.path.join(d2, stem))
                    before = dir_state(d2)
                    p = os.path.join(d2, stem)
                    case = dict(op=op, target=("existing " if present else "absent ") + stem)
                    raised = None
                    try:
                        Tdf.new(p) if op == "new" else Tdf(src).copy(p)
                    except Exception as e:
                        raised = e
                    after = dir_state(d2)
                    gone = [f for f in before if f not in after]
                    changed = [f for f in before if f in after and after[f] != before[f]]
                    created = [f for f in after if f not in before]
                    if gone or changed:
                        fails.append(_f("C17", "C17.clobber", f"{op}({stem!r}) with {'an existing' if present else 'no'} file of that name: existing files {'removed ' + str(gone) if gone else ''}"
                                        f"{' changed ' + str(changed) if changed else ''}", case, seed))
                    if present:
                        if not isinstance(raised, FileExistsError):
                            fails.append(_f("C17", "C17.clobber", f"{op} onto existing {stem!r} {'raised ' + repr(raised) if raised else 'did not raise'} instead of FileExistsError", case, seed))
                        if created:
                            fails.append(_f("C17", "C17.clobber", f"refused {op} onto existing {stem!r} created {created}", case, seed))
                    else:
                        if isinstance(raised, FileExistsError):
                            # refusing is always safe (a variant that normalises the name may find its final target taken by a
                            # sibling); that creation works at all is the 'fresh.tdf' case below
                            if created:
                                fails.append(_f("C17", "C17.clobber", f"refused {op} to {stem!r} created {created}", case, seed))
                        elif raised is not None:
                            fails.append(_f("C17", "C17.create", f"{op} to the absent path {stem!r} raised {raised!r}", case, seed))
                        elif len(created) != 1:
                            fails.append(_f("C17", "C17.create", f"{op} to the absent path {stem!r} created {created} instead of exactly one new file", case, seed))
                        else:
                            made = open(os.path.join(d2, created[0]), "rb").read()
                            try:
                                tab = parse_table(made)
                                if op == "new" and (len(made) != 4096 or tab["nEntries"] != 14 or any(e["type"] != 0 or e["size"] != 0 or e["offset"] != 4096 for e in tab["entries"])):
                                    fails.append(_f("C17", "C17.empty_container", f"new({stem[:20]!r}..) did not write the canonical empty container ({len(made)} bytes)", case, seed))
                                if op == "copy" and made != open(src, "rb").read():
                                    fails.append(_f("C17", "C17.copy_identical", f"copy({stem[:20]!r}..) is not byte-identical to the source", case, seed))
                            except Exception as e:
                                fails.append(_f("C17", "C17.empty_container", f"{op}({stem[:20]!r}..) left a file that cannot be parsed: {e!r}", case, seed))
                    if raised is not None and not isinstance(raised, FileExistsError) and not present:
                        left = [f for f in after if f not in before]
                        if left:
                            fails.append(_f("C17", "C17.create", f"{op}({stem[:20]!r}..) failed with {type(raised).__name__} and left {len(left)} file(s) behind "
                                            f"({os.path.getsize(os.path.join(d2, left[0]))} bytes): not a well-formed container", case, seed))
                    shutil.rmtree(d2, ignore_errors=True)
        # new: canonical empty container
        n += 1
        p = os.path.join(d, "fresh.tdf")
        t = Tdf.new(p)
        raw = open(p, "rb").read()
        case = dict(op="new", target="absent")
        try:
            tab = parse_table(raw)
            ok = (len(raw) == 4096 and tab["version"] == 1 and tab["nEntries"] == 14 and all(e["type"] == 0 and e["size"] == 0 and e["offset"] == 4096 for e in tab["entries"]))
            if not ok:
                fails.append(_f("C17", "C17.empty_container", f"new file is not the canonical empty container (length {len(raw)}, version {tab['version']}, slots {tab['nEntries']}, "
                                f"offsets {sorted(set(e['offset'] for e in tab['entries']))})", case, seed))
            if any(raw[24:32]) or any(raw[44:64]):
                fails.append(_f("C17", "C17.empty_container", "reserved header bytes of a new file are not zero", case, seed))
            with Tdf(p) as tt:
                if len(tt) != 0:
                    fails.append(_f("C17", "C17.empty_container", "a new file reports live blocks", case, seed))
        except Exception as e:
            fails.append(_f("C17", "C17.empty_container", f"new file cannot be parsed: {e!r}", case, seed))
        # copy: byte-identical and independent, also while a write context is open on the source
        for scenario in ("closed source", "inside a write context after mutations", "inside a write context right after add_block"):
            n += 1
            s2 = os.path.join(d, f"s_{len(scenario)}.tdf")
            shutil.copyfile(src, s2)
            dst = os.path.join(d, f"c_{len(scenario)}.tdf")
            case = dict(op="copy", scenario=scenario)
            try:
                if scenario == "closed source":
                    c = Tdf(s2).copy(dst)
                else:
                    with Tdf(s2).allow_write() as t:
                        t.add_block(gen.optical(rng, 1))
                        if "after mutations" in scenario:
                            t.remove_block(t.entries[0].type)
                        c = t.copy(dst)
                        if open(dst, "rb").read() != open(s2, "rb").read():
                            fails.append(_f("C17", "C17.copy_identical", f"copy is not byte-identical to the original ({os.path.getsize(s2)} vs {os.path.getsize(dst)} bytes) when taken {scenario}", case, seed))
                if open(dst, "rb").read() != open(s2, "rb").read():
                    fails.append(_f("C17", "C17.copy_identical", f"copy is not byte-identical to the original ({scenario})", case, seed))
                h_src = _sha(s2)
                with c.allow_write() as cc:
                    cc.add_block(gen.data3d(rng, 1, 3))
                if _sha(s2) != h_src:
                    fails.append(_f("C17", "C17.copy_independent", "mutating the copy changed the original", case, seed))
                h_dst = _sha(dst)
                with Tdf(s2).allow_write() as t:
                    t.remove_block(t.entries[0].type)
                if _sha(dst) != h_dst:
                    fails.append(_f("C17", "C17.copy_independent", "mutating the original changed the copy", case, seed))
            except Exception as e:
                fails.append(_f("C17", "C17.copy", f"copy scenario '{scenario}' raised {e!r}", case, seed))
        # sources of any size: a foreign file with a short table is smaller than the 4096 bytes of an empty library-made file
        try:
            from harness.container_checks import make_file, OPAQUE_TYPES, comment_raw
            for N in (1, 2, 4, 14, 20):
                n += 1
                small = os.path.join(d, f"small{N}.tdf")
                make_file(small, N, [(OPAQUE_TYPES[0], 1, b"\x01\x02\x03" * N, comment_raw("opaque", rng))], rng)
                dst = os.path.join(d, f"small{N}_copy.tdf")
                case = dict(op="copy", scenario=f"foreign source with {N} table slots ({os.path.getsize(small)} bytes)")
                Tdf(small).copy(dst)
                if open(dst, "rb").read() != open(small, "rb").read():
                    fails.append(_f("C17", "C17.copy_identical", f"copy of a {os.path.getsize(small)}-byte source with {N} table slots is not byte-identical ({os.path.getsize(dst)} bytes)", case, seed))
        except Exception as e:
            fails.append(_f("C17", "C17.copy", f"copy of a small foreign source raised {e!r}", dict(op="copy", scenario="small foreign source"), seed))
        # a source reached through a symbolic link: the copy is a file of its own all the same
        try:
            real_src = os.path.join(d, "real_src.tdf")
            shutil.copyfile(src, real_src)
            lnk = os.path.join(d, "latest.tdf")
            os.symlink(real_src, lnk)
            n += 1
            case = dict(op="copy", scenario="source opened through a symbolic link")
            dst = os.path.join(d, "copy_of_link.tdf")
            c = Tdf(lnk).copy(dst)
            if os.path.islink(dst) or open(dst, "rb").read() != open(real_src, "rb").read():
                fails.append(_f("C17", "C17.copy_identical", "copy of a source opened through a symbolic link is not a byte-identical regular file", case, seed))
            h = _sha(real_src)
            with c.allow_write() as cc:
                cc.add_block(gen.data3d(rng, 1, 3))
            if _sha(real_src) != h:
                fails.append(_f("C17", "C17.copy_independent", "mutating the copy changed the original (source had been opened through a symbolic link)", case, seed))
        except OSError:
            pass
        except Exception as e:
            fails.append(_f("C17", "C17.copy", f"copy of a source opened through a symbolic link raised {e!r}", dict(op="copy", scenario="symlinked source"), seed))
        # copying a file onto itself, under whatever name: refused like any existing target, the file stays as it is
        s3 = os.path.join(d, "self.tdf")
        shutil.copyfile(src, s3)
        os.makedirs(os.path.join(d, "sub"), exist_ok=True)
        aliases = [("the same path", s3), ("another spelling of the same path", os.path.join(d, "sub", "..", "self.tdf"))]
        try:
            os.symlink(s3, os.path.join(d, "link.tdf"))
            aliases.append(("a symbolic link to the source", os.path.join(d, "link.tdf")))
            os.link(s3, os.path.join(d, "hard.tdf"))
            aliases.append(("a hard link to the source", os.path.join(d, "hard.tdf")))
        except OSError:
            pass
        for what, target in aliases:
            n += 1
            case = dict(op="copy", target=what)
            if not os.path.exists(s3):            # an earlier refused copy made the source vanish (reported there): start again
                shutil.copyfile(src, s3)
            before = _sha(s3)
            try:
                c = Tdf(s3).copy(target)
                fails.append(_f("C17", "C17.clobber", f"copy onto {what} did not raise", case, seed))
            except FileExistsError:
                pass
            except Exception as e:
                fails.append(_f("C17", "C17.clobber", f"copy onto {what} raised {e!r} instead of FileExistsError", case, seed))
            if not os.path.exists(s3) or _sha(s3) != before:
                fails.append(_f("C17", "C17.clobber", f"copy onto {what} changed the file", case, seed))
        # relative targets are relative to the current directory (not to the source): bare names and names with a directory part
        cwd0 = os.getcwd()
        work = os.path.join(d, "elsewhere")
        os.makedirs(os.path.join(work, "out"), exist_ok=True)
        try:
            os.chdir(work)
            for op in ("copy", "new"):
                for rel in ("bare.tdf", os.path.join("out", "deep.tdf")):
                    for present in (False, True):
                        n += 1
                        case = dict(op=op, target=f"relative name {rel!r}, {'present' if present else 'absent'}, current directory is not the source's")
                        target = os.path.join(work, rel)
                        beside = os.path.join(d, os.path.basename(rel))       # where a 'next to the source' reading would put it
                        for q in (target, beside):
                            if os.path.exists(q):
                                os.remove(q)
                        if present:
                            open(target, "wb").write(b"someone else's file")
                        before = sorted(os.listdir(d))
                        try:
                            Tdf(src).copy(rel) if op == "copy" else Tdf.new(rel)
                            raised = None
                        except Exception as e:
                            raised = e
                        if present:
                            if not isinstance(raised, FileExistsError):
                                fails.append(_f("C17", "C17.clobber", f"{op} to an existing relative target {'raised ' + repr(raised) if raised else 'did not raise'}", case, seed))
                            if not os.path.exists(target) or open(target, "rb").read() != b"someone else's file":
                                fails.append(_f("C17", "C17.clobber", f"{op} to an existing relative target changed it", case, seed))
                        else:
                            if raised is not None:
                                fails.append(_f("C17", "C17.create", f"{op} to an absent relative target raised {raised!r}", case, seed))
                            elif not os.path.exists(target):
                                fails.append(_f("C17", "C17.create", f"{op} to an absent relative target did not create the file at that path", case, seed))
                            elif op == "copy" and open(target, "rb").read() != open(src, "rb").read():
                                fails.append(_f("C17", "C17.copy_identical", "copy to a relative target is not byte-identical to the source", case, seed))
                        if sorted(os.listdir(d)) != before:
                            fails.append(_f("C17", "C17.frame", f"{op} to a relative target changed the source's directory: {sorted(set(os.listdir(d)) ^ set(before))}", case, seed))
        finally:
            os.chdir(cwd0)
        # opening
        n += 1
        try:
            Tdf(os.path.join(d, "does_not_exist.tdf"))
            fails.append(_f("C17", "C17.open_missing", "opening a path that does not exist did not raise", dict(op="open", target="absent"), seed))
        except FileNotFoundError:
            pass
        except Exception as e:
            fails.append(_f("C17", "C17.open_missing", f"opening a missing path raised {e!r}", dict(op="open", target="absent"), seed))
        real = open(src, "rb").read()
        plausible = [("a TDF file whose signature is zeroed", b"\x00" * 16 + real[16:]), ("a TDF file with one signature byte flipped", bytes([real[0] ^ 1]) + real[1:]),
                     ("a TDF file carrying another GUID", bytes(range(16)) + real[16:]), ("a TDF file with the last signature byte off by one", real[:15] + bytes([(real[15] + 1) % 256]) + real[16:])]
        for what, content in plausible + [("non-TDF", b"not a tdf file at all, long enough to hold a header" * 4), ("empty", b""), ("truncated signature", b"\x82K`A"),
                              ("signature with one wrong byte", b"\x82K`A\xd3\x11\x84\xca`\x00\xb6\xac\x16h\x0c\x09" + b"\x00" * 4080)]:
            n += 1
            p = os.path.join(d, f"bad_{abs(hash(what)) % 1000}.tdf")
            open(p, "wb").write(content)
            case = dict(op="open", target=what)
            try:
                t = Tdf(p)
                got = None
                with t as tt:
                    got = len(tt.entries)
                fails.append(_f("C17", "C17.open_foreign", f"opening a {what} file yielded data ({got} entries) instead of being refused", case, seed))
            except Exception:
                pass
            for reader in ("blocks", "has_events"):
                try:
                    getattr(Tdf(p), reader)
                    fails.append(_f("C17", "C17.open_foreign", f"{reader} on a {what} file yielded data instead of being refused", case, seed))
                except Exception:
                    pass
            # the same object asked again after it refused: still no data
            t = Tdf(p)
            for attempt in (1, 2, 3):
                for reader in ("blocks", "has_events", "has_data3D", "__len__"):
                    try:
                        r = getattr(t, reader)
                        r = r() if callable(r) else r
                        fails.append(_f("C17", "C17.open_foreign", f"{reader} on a {what} file yielded {r!r} at access {attempt} of the same object instead of being refused", case, seed))
                        break
                    except Exception:
                        pass
    finally:
        shutil.rmtree(d, ignore_errors=True)
    return dict(what="create / copy / open contracts on real paths", cases=n, label="bounded", bound="5 kinds of existing target x new/copy; 6 path names x new/copy x present/absent with a whole-directory frame; copy inside and outside a write context; 4 foreign files"), fails


def check_c12_entries(seed, tier, root=None):
    """C12 at the container level: reserved words of the header and of every table entry, and the bytes after the terminator
    of every entry comment, are don't-care -- whatever they hold, the table and the blocks read the same"""
    import struct
    from basictdf import Tdf
    warnings.simplefilter("ignore")
    fails, n = [], 0
    rng = random.Random(f"{seed}:c12entries")
    d = tempfile.mkdtemp(prefix="verif_c12_")
    try:
        base = _file_with_blocks(d, rng)
        raw0 = open(base, "rb").read()
        nent = struct.unpack_from("<i", raw0, 20)[0]

        def view(path):
            with Tdf(path) as t:
                ents = [(e.type.value, e.format, e.offset, e.size, e.comment, int(e.creation_date.timestamp()), int(e.last_modification_date.timestamp()), int(e.last_access_date.timestamp())) for e in t.entries]
                blocks = [(b.type.value, b.nBytes) for b in t.blocks]
                return ents, blocks, t.events == t.events
        want = view(base)
        fills = ["random", b"\xff", b"\x80", b"\x81", b"\x00\x00\x00\x80", b"\x7f"] if tier != "quick" else ["random", b"\xff", b"\x00\x00\x00\x80", b"\x81"]
        for fill in fills:
            n += 1
            raw = bytearray(raw0)

            def put(lo, hi):
                for k in range(lo, hi):
                    raw[k] = rng.randrange(256) if fill == "random" else fill[(k - lo) % len(fill)]
            put(24, 32)
            put(44, 64)
            for i in range(nent):
                b0 = 64 + 288 * i
                put(b0 + 28, b0 + 32)
                z = raw0.index(b"\x00", b0 + 32, b0 + 288)
                put(z + 1, b0 + 288)
            p = os.path.join(d, "scrambled.tdf")
            open(p, "wb").write(bytes(raw))
            case = dict(fill=fill if isinstance(fill, str) else fill.hex())
            try:
                got = view(p)
                if got != want:
                    fails.append(_f("C12", "C12.entry_dontcare", f"reserved / trailing bytes of the header and table entries ({case['fill']}) changed what is read: "
                                    f"{[a for a, b in zip(got[0], want[0]) if a != b][:2]}", case, seed))
            except Exception as e:
                fails.append(_f("C12", "C12.entry_dontcare", f"with reserved / trailing bytes of the header and table entries set to {case['fill']} the file can no longer be read: {e!r}", case, seed))
    finally:
        shutil.rmtree(d, ignore_errors=True)
    return dict(what="don't-care bytes of header and table entries scrambled on a real file", cases=n, label="bounded", bound=f"{len(fills)} fill patterns x every reserved word / comment tail"), fails


run_c12_entries = check_c12_entries


def replay(recipe, repo_root):
    fn = check_c08 if recipe["prop"] == "C08" else (check_c12_entries if recipe["prop"] == "C12" else check_c17)
    st, fails = fn(recipe["seed"], "thorough")
    return [f for f in fails if f["repro"].get("case") == recipe.get("case")] or fails[:1]


run_c08 = check_c08
run_c17 = check_c17
