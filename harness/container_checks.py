"""Executable contracts for the container properties C03 C04 C07 C08 C09 C10 C11 C17 on the real code: model-based histories
on real files, observed through an independent struct-based parser.  Bounded, labelled so.  Every failure has a recipe
(module, prop, seq index, seed) that regenerates the same history."""
import hashlib
import io
import os
import random
import shutil
import struct
import tempfile
import warnings
from datetime import datetime

import numpy as np

from harness import gen
from harness.capture import parse_table
from harness.codec_checks import real_write, _fail

SIG = bytes([0x82, 0x4B, 0x60, 0x41, 0xD3, 0x11, 0x84, 0xCA, 0x60, 0x00, 0xB6, 0xAC, 0x16, 0x68, 0x0C, 0x08])
TYPE_OF = {"Data3D": 5, "EMG": 11, "ForceTorque3D": 12, "PlatformsData": 9, "PlatformsCalibration": 7, "Data2D": 4, "Calibration": 2, "OpticalSetup": 6, "Events": 16}
SETTER = {"Data3D": "data3D", "ForceTorque3D": "force_and_torque", "PlatformsData": "force_platforms_data", "Events": "events", "EMG": "emg"}
GETTER = dict(SETTER, Calibration="calibrationData")
HAS = {"Data3D": "has_data3D", "ForceTorque3D": "has_force_and_torque", "PlatformsData": "has_force_platforms_data", "Events": "has_events", "EMG": "has_emg"}
OPAQUE_TYPES = [3, 8, 10, 13, 14, 15]


def _f(prop, kind, msg, case, seed):
    d = _fail(kind, "Tdf", msg, dict(case=case))
    d["recipe"] = dict(module="harness.container_checks", kind="container", prop=prop, case=case, seed=seed)
    return d


def _relevant(f, props):
    return props is None or any(p in f["recipe"]["prop"].split(",") for p in props) or f["kind"].startswith("harness")


def make_file(path, N, opaque, rng, now=1_600_000_000, pad=False):
    """independent writer of a TDF file with N slots and the given opaque live blocks [(type, format, payload, comment_raw)]:
    compact, or (pad=True) well-formed with unclaimed bytes between and after the blocks"""
    T0 = 64 + 288 * N
    out = bytearray(SIG + struct.pack("<Ii", 1, N) + b"\x00" * 8 + struct.pack("<iii", now, now, now) + b"\x00" * 20)
    off = T0
    ents = []
    pads = []
    for (t, f, payload, comment) in opaque:
        ents.append((t, f, off, len(payload), comment))
        off += len(payload)
        pads.append(bytes(rng.randrange(256) for _ in range(rng.choice([0, 1, 8, 24]))) if pad else b"")
        off += len(pads[-1])
    for (t, f, o, sz, comment) in ents:
        out += struct.pack("<IIiiiii", t, f, o, sz, now - 5, now - 3, now - 1) + b"\x00" * 4 + comment
    for _ in range(N - len(ents)):
        out += struct.pack("<IIiiiii", 0, 0, off, 0, now, now, now) + b"\x00" * 4 + b"free".ljust(256, b"\x00")
    for (t, f, payload, comment), extra in zip(opaque, pads):
        out += payload + extra
    open(path, "wb").write(bytes(out))


def comment_raw(text, rng):
    b = text.encode("cp1252") + b"\x00"
    return b + bytes(rng.randrange(256) for _ in range(256 - len(b)))


class Model:
    def __init__(self, N, live):
        self.N, self.live = N, list(live)     # live: dict(type, format, payload, comment, cdate, mdate)

    def types(self):
        return [e["type"] for e in self.live]


def secs(d):
    return int(d.timestamp())


def check_disk(path, model, case, seed, when):
    """C03 / C09 / C04: independent parse of the file vs the model"""
    fails = []
    raw = open(path, "rb").read()
    try:
        tab = parse_table(raw)
    except Exception as e:
        return [_f("C03", "C03.header", f"{when}: signature / header damaged: {e!r}", case, seed)], None
    N = model.N
    T0 = 64 + 288 * N
    if tab["version"] != 1 or tab["nEntries"] != N:
        fails.append(_f("C03", "C03.header", f"{when}: version / slot count changed to {tab['version']} / {tab['nEntries']}", case, seed))
        return fails, tab
    ents = tab["entries"]
    live = [e for e in ents if e["type"] != 0]
    # C03: ranges inside the file, after the table, no overlap; unused slots size 0
    spans = []
    for e in live:
        if e["offset"] < T0 or e["size"] < 0 or e["offset"] + e["size"] > len(raw):
            fails.append(_f("C03", "C03.range", f"{when}: live slot {e['slot']} (type {e['type']}) has range [{e['offset']}, {e['offset'] + e['size']}) outside the data area [{T0}, {len(raw)})", case, seed))
        spans.append((e["offset"], e["offset"] + e["size"], e["slot"]))
    for i in range(len(spans)):
        for j in range(i + 1, len(spans)):
            a, b = spans[i], spans[j]
            if a[0] < b[1] and b[0] < a[1] and a[1] > a[0] and b[1] > b[0]:
                fails.append(_f("C03", "C03.overlap", f"{when}: live slots {a[2]} and {b[2]} overlap: {a[:2]} and {b[:2]}", case, seed))
    for e in ents:
        if e["type"] == 0 and e["size"] != 0:
            fails.append(_f("C03", "C03.unused", f"{when}: unused slot {e['slot']} has size {e['size']}", case, seed))
    # C09: compact (for histories that start from a compact file)
    off = T0
    seen_unused = False
    for e in (ents if getattr(model, "compact", True) else []):
        if e["type"] == 0:
            seen_unused = True
            continue
        if seen_unused:
            fails.append(_f("C09", "C09.order", f"{when}: live slot {e['slot']} follows an unused slot", case, seed))
        if e["offset"] != off:
            fails.append(_f("C09", "C09.hole", f"{when}: live slot {e['slot']} (type {e['type']}) at offset {e['offset']}, expected {off} ({'hole' if e['offset'] > off else 'overlap'} of {abs(e['offset'] - off)} bytes)", case, seed))
        off = e["offset"] + e["size"]
    total = T0 + sum(e["size"] for e in live)
    if not getattr(model, "compact", True):
        total = len(raw)
        for e in ents:
            if e["type"] == 0 and (e["offset"] < max([T0] + [x["offset"] + x["size"] for x in live]) or e["offset"] > len(raw)):
                fails.append(_f("C03", "C03.unused", f"{when}: unused slot {e['slot']} points at {e['offset']}, inside live data or past the end of the file ({len(raw)})", case, seed))
                break
    if len(raw) != total:
        fails.append(_f("C09", "C09.length", f"{when}: file has {len(raw)} bytes, header + table + live blocks need {total}", case, seed))
    for e in (ents if getattr(model, "compact", True) else []):
        if e["type"] == 0 and e["offset"] != total:
            fails.append(_f("C09", "C09.free_offset", f"{when}: unused slot {e['slot']} has offset {e['offset']}, but the end of data is {total}", case, seed))
            break
    # C04 / C11: live blocks = model, in order, with payload and metadata
    if [e["type"] for e in live] != model.types():
        fails.append(_f("C04", "C04.set", f"{when}: live types on disk {[e['type'] for e in live]} differ from the expected {model.types()}", case, seed))
    else:
        for e, m in zip(live, model.live):
            payload = raw[e["offset"]:e["offset"] + e["size"]]
            if payload != m["payload"]:
                fails.append(_f("C04", "C04.payload", f"{when}: block of type {e['type']} changed (bytes) although it was not the block operated on" if not m.get("fresh") else
                                f"{when}: stored bytes of the block of type {e['type']} are not the bytes it was given", case, seed))
            cm = e["comment_raw"].split(b"\x00")[0]
            if cm != m["comment"].encode("cp1252"):
                fails.append(_f("C04", "C04.comment", f"{when}: comment of block type {e['type']} is {cm!r}, expected {m['comment']!r}", case, seed))
            if e["format"] != m["format"]:
                fails.append(_f("C04", "C04.format", f"{when}: format code of block type {e['type']} is {e['format']}, expected {m['format']}", case, seed))
            if (e["creation"], e["modification"]) != (m["cdate"], m["mdate"]):
                fails.append(_f("C04", "C04.dates", f"{when}: dates of block type {e['type']} are {(e['creation'], e['modification'])}, expected {(m['cdate'], m['mdate'])}", case, seed))
    types = [e["type"] for e in live]
    if len(set(types)) != len(types):
        fails.append(_f("C11", "C11.duplicate", f"{when}: two live blocks of one type on disk: {types}", case, seed))
    return fails, tab


def check_memory(tdf, path, model, case, seed, when):
    """C10: open object == disk (at this instant); C11: accessors"""
    from basictdf.tdfBlock import BlockType
    fails = []
    raw = open(path, "rb").read()
    try:
        tab = parse_table(raw)
    except Exception:
        return fails
    mem = [(e.type.value, e.format, e.offset, e.size, e.comment, secs(e.creation_date), secs(e.last_modification_date), secs(e.last_access_date)) for e in tdf.entries]
    disk = [(e["type"], e["format"], e["offset"], e["size"], e["comment_raw"].split(b"\x00")[0].decode("cp1252"), e["creation"], e["modification"], e["access"]) for e in tab["entries"]]
    if mem != disk:
        k = next((i for i in range(min(len(mem), len(disk))) if mem[i] != disk[i]), min(len(mem), len(disk)))
        fails.append(_f("C10", "C10.table", f"{when}: jump table of the open object differs from the table on disk at slot {k}: memory {mem[k] if k < len(mem) else None} vs disk {disk[k] if k < len(disk) else None}", case, seed))
    try:
        if tdf.nBytes != len(raw):
            fails.append(_f("C10", "C10.size", f"{when}: nBytes {tdf.nBytes} != file size {len(raw)}", case, seed))
    except Exception as e:
        fails.append(_f("C10", "C10.size", f"{when}: nBytes raised {e!r}", case, seed))
    live_types = model.types()
    try:
        if len(tdf) != len(live_types):
            fails.append(_f("C11", "C11.len", f"{when}: len(tdf) = {len(tdf)} but {len(live_types)} blocks are live", case, seed))
    except Exception as e:
        fails.append(_f("C11", "C11.len", f"{when}: len raised {e!r}", case, seed))
    for name, t in TYPE_OF.items():
        present = t in live_types
        if name in HAS:
            try:
                if bool(getattr(tdf, HAS[name])) != present:
                    fails.append(_f("C11", "C11.has", f"{when}: {HAS[name]} is {getattr(tdf, HAS[name])} but the block is {'present' if present else 'absent'}", case, seed))
            except Exception as e:
                fails.append(_f("C11", "C11.has", f"{when}: {HAS[name]} raised {e!r}", case, seed))
        try:
            blk = tdf.get_block(BlockType(t))
            if not present:
                fails.append(_f("C11", "C11.lookup", f"{when}: get_block of the absent type {t} returned {blk!r}", case, seed))
            else:
                m = next(x for x in model.live if x["type"] == t)
                if blk.type.value != t:
                    fails.append(_f("C11", "C11.lookup", f"{when}: get_block({t}) returned a block of type {blk.type}", case, seed))
                if real_write(name, blk) != m["payload"]:
                    fails.append(_f("C04,C10", "C10.read", f"{when}: reading block type {t} through the open object does not give the bytes stored on disk", case, seed))
                if name in GETTER:
                    g = getattr(tdf, GETTER[name])
                    if g.type.value != t or real_write(name, g) != m["payload"]:
                        fails.append(_f("C11", "C11.getter", f"{when}: convenience getter {GETTER[name]} does not return the stored block of its own type", case, seed))
        except Exception as e:
            if present:
                fails.append(_f("C11", "C11.lookup", f"{when}: get_block({t}) of a present block raised {e!r}", case, seed))
            elif name in GETTER:
                try:
                    getattr(tdf, GETTER[name])
                    fails.append(_f("C11", "C11.getter", f"{when}: getter {GETTER[name]} of an absent block did not raise", case, seed))
                except Exception:
                    pass
    # lookup by slot index
    for i, e in enumerate(tab["entries"]):
        try:
            blk = tdf.get_block(i)
            if e["type"] in TYPE_OF.values() and blk.type.value != e["type"]:
                fails.append(_f("C11", "C11.index", f"{when}: get_block({i}) returned type {blk.type}, slot holds {e['type']}", case, seed))
            if e["type"] == 0 and blk.type.value != 0:
                fails.append(_f("C11", "C11.index", f"{when}: get_block({i}) of an unused slot returned {blk!r}", case, seed))
        except NotImplementedError:
            if e["type"] in TYPE_OF.values() or e["type"] == 0:
                fails.append(_f("C11", "C11.index", f"{when}: get_block({i}) raised NotImplementedError for decodable type {e['type']}", case, seed))
        except Exception as ex:
            fails.append(_f("C11", "C11.index", f"{when}: get_block({i}) raised {ex!r}", case, seed))
    for bad in (-1, len(tab["entries"])):
        try:
            tdf.get_block(bad)
            fails.append(_f("C11", "C11.index", f"{when}: get_block({bad}) did not raise", case, seed))
        except IndexError:
            pass
        except Exception as ex:
            fails.append(_f("C11", "C11.index", f"{when}: get_block({bad}) raised {ex!r} instead of IndexError", case, seed))
    if all(t in TYPE_OF.values() for t in live_types):
        try:
            bl = [b for b in tdf.blocks if b.type.value != 0]
            if [b.type.value for b in bl] != live_types:
                fails.append(_f("C11", "C11.blocks", f"{when}: blocks lists types {[b.type.value for b in bl]}, live are {live_types}", case, seed))
        except Exception as ex:
            fails.append(_f("C11", "C11.blocks", f"{when}: blocks raised {ex!r}", case, seed))
    return fails


def model_from_disk(path, N):
    """after an unexpected outcome the expected content is whatever is on disk now (structure is still checked independently)"""
    try:
        raw = open(path, "rb").read()
        tab = parse_table(raw)
    except Exception:
        return None
    live = []
    for e in tab["entries"]:
        if e["type"] != 0:
            try:
                cm = e["comment_raw"].split(b"\x00")[0].decode("cp1252")
            except Exception:
                cm = ""
            live.append(dict(type=e["type"], format=e["format"], payload=raw[max(e["offset"], 0):max(e["offset"], 0) + max(e["size"], 0)], comment=cm, cdate=e["creation"], mdate=e["modification"]))
    return Model(tab["nEntries"] if tab["nEntries"] == N else N, live)


def gen_block(rng, name):
    b = gen.BLOCK_GEN[name](rng)
    if rng.random() < 0.3:
        # the block has a past: requests it had to refuse (wrong-length track, junk, channel in use) before it is stored
        from harness import edits
        try:
            edits.refused_operations(name, b, rng)
        except Exception:
            pass
    if name == "Data2D" and rng.random() < 0.2:
        # one cell with thousands of points (legal up to 65 535): the block's size no longer fits 16 bits
        cells = [(f, c) for f in range(b.nFrames) for c in range(b.nCams)]
        if cells:
            f, c = rng.choice(cells)
            b.data[f, c] = gen.f32_words(rng, 2 * rng.choice([8192, 8200, 20000])).reshape(-1, 2).copy()
    if rng.random() < 0.2:
        # dates before 1970 are legal (signed 32-bit seconds)
        from datetime import datetime as _dt
        b.creation_date = _dt(1965, 5, 6, 7, 8, 9)
        if rng.random() < 0.5:
            b.last_modification_date = _dt(1969, 12, 31, 12, 0, 0)
    if rng.random() < 0.15:
        # timezone-aware dates denote an instant as well as naive ones do (the entry stores the instant's seconds)
        from datetime import datetime as _dt, timedelta as _td, timezone as _tz
        tz = _tz(_td(hours=rng.choice([5, -7, 9]), minutes=rng.choice([0, 30])))
        b.creation_date = _dt(2021, 6, 1, 12, 0, 0, tzinfo=tz)
        if rng.random() < 0.5:
            b.last_modification_date = _dt(2022, 1, 2, 3, 4, 5, tzinfo=tz)
    if rng.random() < 0.25:
        # a frame with an infinite leading component (the library stores it as a missing frame, DESIGN 3.4): the container
        # clauses -- entry size = bytes stored, what is read back re-encodes to the stored bytes -- hold all the same
        from harness import edits
        try:
            edits.poison_leading_component(name, b, rng)
        except Exception:
            pass
    return b


def invalid_requests(rng, model):
    """(description, callable(tdf) that must raise) for the C07 rejection causes applicable in this state"""
    from basictdf.tdfBlock import BlockType
    from basictdf.tdfEMG import EMG, EMGBlockFormat
    from basictdf.tdfData3D import Data3D, Data3dBlockFormat
    out = []
    live = model.types()
    free_names = [n for n, t in TYPE_OF.items() if t not in live]
    full = len(live) >= model.N
    if live:
        nm = next((n for n, t in TYPE_OF.items() if t in live), None)
        if nm:
            out.append((f"add duplicate {nm}", lambda tdf, nm=nm: tdf.add_block(gen_block(rng, nm))))
    if full and free_names:
        out.append(("add to a full table", lambda tdf: tdf.add_block(gen_block(rng, free_names[0]))))
        if free_names[0] in SETTER:
            out.append(("setter on a full table (absent type)", lambda tdf: setattr(tdf, SETTER[free_names[0]], gen_block(rng, free_names[0]))))
    if free_names and not full:
        nm = free_names[0]
        for L in (256, 300):
            out.append((f"add with over-long comment ({L})", lambda tdf, nm=nm, L=L: tdf.add_block(gen_block(rng, nm), comment="c" * L)))
        out.append(("add with non-cp1252 comment", lambda tdf, nm=nm: tdf.add_block(gen_block(rng, nm), comment="snow ☃")))
        out.append(("add a wrong object", lambda tdf: tdf.add_block("not a block")))
        for pos in ("first", "last"):
            def bad_label(tdf, pos=pos):
                b = gen.data3d(rng, 3, 4) if TYPE_OF["Data3D"] not in live else (gen.emg(rng, 3, 4) if TYPE_OF["EMG"] not in live else gen.ft3d(rng, 3, 4))
                items = b._tracks if hasattr(b, "_tracks") else b._signals
                items[0 if pos == "first" else -1].label = rng.choice(["x" * 256, "x" * 300, "snow ☃"])
                tdf.add_block(b)
            if any(TYPE_OF[n] not in live for n in ("Data3D", "EMG", "ForceTorque3D")):
                out.append((f"add block whose {pos} track label cannot be encoded", bad_label))
        if TYPE_OF["EMG"] not in live:
            out.append(("add EMG of unsupported format", lambda tdf: tdf.add_block(EMG(100, 4, format=EMGBlockFormat.byFrame))))
    for nm, t in TYPE_OF.items():
        if t not in live:
            out.append((f"remove absent {nm}", lambda tdf, t=t: tdf.remove_block(BlockType(t))))
            out.append((f"replace absent {nm}", lambda tdf, nm=nm: tdf.replace_block(gen_block(rng, nm))))
            break
    if TYPE_OF["EMG"] in live:
        out.append(("replace EMG by one of unsupported format", lambda tdf: tdf.replace_block(EMG(100, 4, format=EMGBlockFormat.byFrame))))
        for L in (256, 300):
            out.append((f"replace EMG with over-long comment ({L})", lambda tdf, L=L: tdf.replace_block(gen.emg(rng), comment="c" * L)))

        def bad_emg(tdf):
            b = gen.emg(rng, 2, 4)
            b._signals[-1].label = "y" * 256
            tdf.replace_block(b)
        out.append(("replace EMG by one whose last label is too long", bad_emg))
        out.append(("setter with a block that cannot be encoded", lambda tdf: setattr(tdf, "emg", EMG(100, 4, format=EMGBlockFormat.byFrame))))
    # a block whose table ENTRY cannot be encoded: a date outside the 32-bit range, a format that is not an enum member
    from datetime import datetime as _dt

    def spoil(b, how):
        if how == "creation date 2040":
            b.creation_date = _dt(2040, 1, 1)
        elif how == "modification date 2150":
            b.last_modification_date = _dt(2150, 6, 1)
        else:
            b.format = b.format.value        # a bare int where the entry needs `.value`
        return b
    for how in ("creation date 2040", "modification date 2150", "format given as a bare int"):
        for nm in ("Events", "EMG", "Data3D"):
            if TYPE_OF[nm] in live:
                out.append((f"replace {nm} by a block with {how}", lambda tdf, nm=nm, how=how: tdf.replace_block(spoil(gen_block(rng, nm), how))))
                out.append((f"setter ({nm} present) with a block with {how}", lambda tdf, nm=nm, how=how: setattr(tdf, SETTER[nm], spoil(gen_block(rng, nm), how))))
                break
        if free_names and not full:
            out.append((f"add a block with {how}", lambda tdf, how=how: tdf.add_block(spoil(gen_block(rng, free_names[0]), how))))
    if TYPE_OF["Data3D"] in live:
        def bad3d(tdf):
            from basictdf.tdfData3D import Data3dBlockFormat
            b = gen.data3d(rng, 1, 4)
            b.format = Data3dBlockFormat.byFrame
            tdf.replace_block(b)
        out.append(("replace Data3D by one of unsupported format", bad3d))
    return out


def run_history(seed, si, tier, focus=None):
    """one history on a temp file; returns list of failures"""
    from basictdf import Tdf
    from basictdf.tdfBlock import BlockType
    warnings.simplefilter("ignore")
    rng = random.Random(f"{seed}:hist:{si}")
    fails = []
    d = tempfile.mkdtemp(prefix="verif_tdf_")
    try:
        path = os.path.join(d, "h.tdf")
        kind = rng.choice(["new", "foreign", "foreign", "foreign_full", "foreign_padded"])
        case = dict(seq=si, start=kind)
        if kind == "new":
            Tdf.new(path)
            raw = open(path, "rb").read()
            tab = parse_table(raw)
            model = Model(14, [])
        else:
            N = rng.choice([1, 2, 3, 3, 4, 6])
            nop = rng.randint(0, min(N, 3)) if kind == "foreign" else max(N - rng.randint(0, 1), 0)
            opaque = []
            for t in rng.sample(OPAQUE_TYPES, min(nop, len(OPAQUE_TYPES))):
                opaque.append((t, rng.randint(1, 3), bytes(rng.randrange(256) for _ in range(rng.choice([0, 1, 7, 40, 300]))), comment_raw(rng.choice(["", "opaque", "é€ comment"]), rng)))
            make_file(path, N, opaque, rng, pad=(kind == "foreign_padded"))
            now = 1_600_000_000
            model = Model(N, [dict(type=t, format=f, payload=p, comment=c.split(b"\x00")[0].decode("cp1252"), cdate=now - 5, mdate=now - 3) for (t, f, p, c) in opaque])
        case["N"] = model.N
        model.compact = kind != "foreign_padded"
        f0, _ = check_disk(path, model, case, seed, "initial file")
        if f0:
            return [_f("harness", "harness.initial", "the independently written start file is not compact: " + f0[0]["message"], case, seed)]
        ops_log = []
        model_lost = False
        objs = []                         # objects used earlier on this file (writers and readers): a later context may reuse one
        for ctxi in range(rng.randint(1, 4)):
            if objs and rng.random() < 0.4:
                tdf = rng.choice(objs)        # an object whose earlier context ended before other objects changed the file
                case = dict(case, reused_object=True)
            else:
                tdf = Tdf(path)
                objs.append(tdf)
            refused_here = False          # a request was refused in this session: what goes wrong afterwards is C07's business too
            with tdf.allow_write() as t:
                for step in range(rng.randint(1, 6)):
                    live = model.types()
                    names_free = [n for n, ty in TYPE_OF.items() if ty not in live]
                    names_live = [n for n, ty in TYPE_OF.items() if ty in live]
                    choices = []
                    if names_free and len(live) < model.N:
                        choices += ["add", "add", "setter_add"]
                    if live:
                        choices += ["remove", "remove"]
                    if names_live:
                        choices += ["replace", "replace_comment", "setter_replace"]
                    choices += ["reject"] * 3
                    if len(live) < model.N:
                        choices += ["remove_unused"]      # 'removing' the unused-slot type is accepted by the library: nothing may change
                    if not choices:
                        break
                    op = rng.choice(choices)
                    before_bytes = open(path, "rb").read()
                    before_entries = [(e.type.value, e.format, e.offset, e.size, e.comment) for e in t.entries]
                    desc = op
                    try:
                        if op in ("add", "setter_add"):
                            nm = rng.choice([n for n in names_free if op == "add" or n in SETTER] or names_free)
                            b = gen_block(rng, nm)
                            cm = rng.choice(["Generated by basicTDF", "", "é€ö", "k" * 255])
                            if op == "add" or nm not in SETTER:
                                t.add_block(b, comment=cm) if rng.random() < 0.7 else t.add_block(b)
                                if "cm_used" in locals():
                                    pass
                                used = cm if t.entries[len(live)].comment == cm else "Generated by basicTDF"
                            else:
                                setattr(t, SETTER[nm], b)
                                used = "Generated by basicTDF"
                            desc = f"{op} {nm}"
                            model.live.append(dict(type=TYPE_OF[nm], format=b.format.value if not isinstance(b.format, int) else int(b.format), payload=real_write(nm, b), comment=used,
                                                   cdate=secs(b.creation_date), mdate=secs(b.last_modification_date), fresh=True))
                        elif op == "remove_unused":
                            desc = "remove_block(BlockType.unusedSlot)"
                            t.remove_block(BlockType.unusedSlot)
                        elif op == "remove":
                            ty = rng.choice(live)
                            desc = f"remove type {ty} (position {live.index(ty)} of {len(live)})"
                            t.remove_block(BlockType(ty))
                            model.live = [e for e in model.live if e["type"] != ty]
                        elif op in ("replace", "replace_comment", "setter_replace"):
                            nm = rng.choice([n for n in names_live if op != "setter_replace" or n in SETTER] or names_live)
                            b = gen_block(rng, nm)
                            old = next(e for e in model.live if e["type"] == TYPE_OF[nm])
                            cm = None
                            if op == "replace_comment":
                                cm = rng.choice(["new comment", "", "é€"])
                                t.replace_block(b, comment=cm)
                            elif op == "setter_replace" and nm in SETTER:
                                setattr(t, SETTER[nm], b)
                            else:
                                t.replace_block(b)
                            desc = f"{op} {nm} (position {live.index(TYPE_OF[nm])} of {len(live)})"
                            model.live = [e for e in model.live if e["type"] != TYPE_OF[nm]]
                            model.live.append(dict(type=TYPE_OF[nm], format=b.format.value if not isinstance(b.format, int) else int(b.format), payload=real_write(nm, b),
                                                   comment=old["comment"] if cm is None else cm, cdate=secs(b.creation_date), mdate=secs(b.last_modification_date), fresh=True))
                        elif op == "reject":
                            reqs = invalid_requests(rng, model)
                            if not reqs:
                                continue
                            what, call = rng.choice(reqs)
                            desc = f"rejected: {what}"
                            try:
                                call(t)
                                fails.append(_f("C07", "C07.accepted", f"invalid request was not refused: {what}", dict(case, ops=ops_log + [desc]), seed))
                                if what.startswith("add duplicate"):
                                    fails.append(_f("C11", "C11.duplicate", f"adding a block whose type is already present was not refused", dict(case, ops=ops_log + [desc]), seed))
                                # the history goes on with whatever the library did: the expected content is re-read from the disk table
                                model_lost = True
                            except Exception as ex:
                                if what.startswith("add duplicate") and not isinstance(ex, ValueError):
                                    fails.append(_f("C11", "C11.duplicate", f"duplicate add raised {ex!r} instead of ValueError", dict(case, ops=ops_log + [desc]), seed))
                                after = open(path, "rb").read()
                                if after != before_bytes:
                                    fails.append(_f("C07", "C07.bytes", f"{what}: the file changed although the request was refused with {type(ex).__name__} "
                                                    f"({len(before_bytes)} -> {len(after)} bytes)", dict(case, ops=ops_log + [desc]), seed))
                                now_entries = [(e.type.value, e.format, e.offset, e.size, e.comment) for e in t.entries]
                                if now_entries != before_entries:
                                    fails.append(_f("C07", "C07.session", f"{what}: the open object's table changed although the request was refused", dict(case, ops=ops_log + [desc]), seed))
                    except Exception as ex:
                        fails.append(_f("C11,C04,C10", "C11.valid_operation_refused", f"valid operation '{desc}' raised {ex!r}", dict(case, ops=ops_log + [desc]), seed))
                        model_lost = True
                    ops_log.append(desc)
                    c2 = dict(case, ops=list(ops_log))
                    if model_lost:
                        was_compact = getattr(model, "compact", True)
                        model = model_from_disk(path, model.N)
                        if model is not None:
                            model.compact = was_compact
                        if model is None:
                            fails.append(_f("C03", "C03.header", f"after '{desc}' the file can no longer be parsed", c2, seed))
                            return fails
                        model_lost = False
                    fl, _ = check_disk(path, model, c2, seed, f"after '{desc}'")
                    fl += check_memory(t, path, model, c2, seed, f"after '{desc}'")
                    if op == "reject":
                        refused_here = True
                    elif refused_here:
                        for f_ in fl:           # 'later operations in the same session behave as if the failed call had never been made'
                            if "C07" not in f_["recipe"]["prop"]:
                                f_["recipe"]["prop"] += ",C07"
                                f_["message"] = "(in a session in which a request was refused earlier) " + f_["message"]
                    fails += fl
                    for m in model.live:
                        m.pop("fresh", None)
                    if len(fails) > 12:
                        return fails
            # after the context: reopen
            c2 = dict(case, ops=list(ops_log) + ["reopen"])
            fl, _ = check_disk(path, model, c2, seed, "after closing the context")
            fails += fl
            rd = Tdf(path)
            with rd as t2:
                fails += check_memory(t2, path, model, c2, seed, "after reopening")
            objs.append(rd)
            if len(fails) > 12:
                return fails
        return fails
    finally:
        shutil.rmtree(d, ignore_errors=True)


def run_histories(seed, tier, root=None, props=None):
    n = 300 if tier == "quick" else 2000
    fails = []
    for si in range(n):
        try:
            fails += [f for f in run_history(seed, si, tier) if _relevant(f, props)]
        except Exception as e:
            import traceback
            fails.append(_f("harness", "harness.crash", f"history {si} crashed the harness: {e!r} {traceback.format_exc(limit=3)}", dict(seq=si), seed))
        if len(fails) > 6:
            break
    return dict(what="model-based histories of add/remove/replace/setter/rejected requests on real files, independent parser after every operation", cases=n, label="bounded",
                bound=f"{n} histories x <= 3 contexts x <= 6 operations; table lengths 1,2,3,4,6,14; foreign files with opaque blocks"), fails


def replay(recipe, repo_root):
    if recipe.get("case", {}).get("seq") is not None and recipe["prop"] not in ("C08", "C17"):
        return run_history(recipe["seed"], recipe["case"]["seq"], "thorough")
    from harness import container_checks2
    return container_checks2.replay(recipe, repo_root)


def check_noncompact(seed, tier):
    """C07, cause 'an unused slot lies between live blocks': on foreign files whose table has such a hole every request that is
    refused leaves the bytes of the file and the table of the open object exactly as they were"""
    from basictdf import Tdf
    from basictdf.tdfBlock import BlockType
    warnings.simplefilter("ignore")
    fails, n = [], 0
    d = tempfile.mkdtemp(prefix="verif_hole_")
    try:
        for i in range(12 if tier == "quick" else 80):
            rng = random.Random(f"{seed}:hole:{i}")
            N = rng.choice([3, 4, 6, 14])
            path = os.path.join(d, f"h{i}.tdf")
            nop = rng.randint(1, min(N - 2, 3))
            opaque = [(t, rng.randint(1, 3), bytes(rng.randrange(256) for _ in range(rng.choice([1, 7, 40, 300]))), comment_raw("opaque", rng))
                      for t in rng.sample(OPAQUE_TYPES, nop)]
            make_file(path, N, opaque, rng)
            names = rng.sample(["Events", "EMG", "Data3D"], rng.randint(0, min(2, N - nop - 1)))
            with Tdf(path).allow_write() as t:
                for nm in names:
                    t.add_block(gen_block(rng, nm))
            nlive = nop + len(names)
            raw = bytearray(open(path, "rb").read())
            a = rng.randrange(nlive)                   # a live slot ...
            b = rng.randrange(nlive, N)                # ... trades places with an unused one: a hole before live blocks
            if a == nlive - 1 and b == nlive:
                a = 0 if nlive > 1 else a
            if a == nlive - 1 and b == nlive:
                continue                               # moving the last live entry one slot down leaves no live block after the hole
            ra, rb = bytes(raw[64 + 288 * a: 64 + 288 * (a + 1)]), bytes(raw[64 + 288 * b: 64 + 288 * (b + 1)])
            raw[64 + 288 * a: 64 + 288 * (a + 1)], raw[64 + 288 * b: 64 + 288 * (b + 1)] = rb, ra
            open(path, "wb").write(bytes(raw))
            free = [nm for nm in TYPE_OF if nm not in names]
            reqs = [(f"add_block({free[0]})", lambda t: t.add_block(gen_block(rng, free[0])))]
            if free[0] in SETTER:
                reqs.append((f"{SETTER[free[0]]} = block (type absent)", lambda t: setattr(t, SETTER[free[0]], gen_block(rng, free[0]))))
            for nm in names:
                reqs.append((f"replace_block({nm})", lambda t, nm=nm: t.replace_block(gen_block(rng, nm))))
                reqs.append((f"replace_block({nm}, comment)", lambda t, nm=nm: t.replace_block(gen_block(rng, nm), comment="c")))
                if nm in SETTER:
                    reqs.append((f"{SETTER[nm]} = block (type present)", lambda t, nm=nm: setattr(t, SETTER[nm], gen_block(rng, nm))))
            for what, call in reqs:
                n += 1
                case = dict(hole=i, N=N, request=what, swapped=[a, b])
                before = open(path, "rb").read()
                with Tdf(path).allow_write() as t:
                    ents = [(e.type.value, e.format, e.offset, e.size, e.comment) for e in t.entries]
                    try:
                        call(t)
                        raised = None
                    except Exception as ex:
                        raised = ex
                    now = [(e.type.value, e.format, e.offset, e.size, e.comment) for e in t.entries]
                    if raised is not None and now != ents:
                        fails.append(_f("C07", "C07.session", f"{what} on a table with an unused slot between live blocks was refused ({type(raised).__name__}) but changed the open object's table", case, seed))
                after = open(path, "rb").read()
                if raised is not None and after != before:
                    fails.append(_f("C07", "C07.bytes", f"{what} on a table with an unused slot between live blocks was refused ({type(raised).__name__}) but changed the file "
                                    f"({sum(1 for x, y in zip(before, after) if x != y)} bytes differ, length {len(before)} -> {len(after)})", case, seed))
                if after != before:
                    open(path, "wb").write(before)
            if len(fails) > 6:
                break
    finally:
        shutil.rmtree(d, ignore_errors=True)
    return dict(what="refused requests on foreign files with an unused slot between live blocks (real code)", cases=n, label="bounded",
                bound="tables of 3..14 slots, one live entry swapped with an unused one, add / replace / setter requests"), fails


def check_large_tail(seed, tier):
    """C03 C04 C09 C10: removing / replacing a block that has more than a megabyte of other blocks after it (tail moves larger than
    any buffer the implementation may use)"""
    from basictdf import Tdf
    from basictdf.tdfBlock import BlockType
    warnings.simplefilter("ignore")
    fails, n = [], 0
    d = tempfile.mkdtemp(prefix="verif_big_")
    try:
        rng = random.Random(f"{seed}:big")
        path = os.path.join(d, "big.tdf")
        Tdf.new(path)
        model = Model(14, [])

        def entry(nm, b, comment="Generated by basicTDF"):
            return dict(type=TYPE_OF[nm], format=b.format.value if not isinstance(b.format, int) else int(b.format), payload=real_write(nm, b), comment=comment,
                        cdate=secs(b.creation_date), mdate=secs(b.last_modification_date), fresh=True)
        from basictdf.tdfEMG import EMG, EMGTrack
        nbig = (1 << 18) + rng.randint(1, 4000)                          # two signals: > 2 MiB of samples
        big = EMG(1000, nbig)
        for si, lab in enumerate(("big a", "big b")):
            big.addSignal(EMGTrack(lab, np.random.default_rng(seed * 7 + si).standard_normal(nbig).astype("<f4")))
        ev, d3, op = gen_block(rng, "Events"), gen_block(rng, "Data3D"), gen_block(rng, "OpticalSetup")
        steps = [("add Events", lambda t: t.add_block(ev), lambda: model.live.append(entry("Events", ev))),
                 ("add Data3D", lambda t: t.add_block(d3), lambda: model.live.append(entry("Data3D", d3))),
                 ("add big EMG", lambda t: t.add_block(big), lambda: model.live.append(entry("EMG", big))),
                 ("add OpticalSetup", lambda t: t.add_block(op), lambda: model.live.append(entry("OpticalSetup", op)))]
        ev2 = gen_block(rng, "Events")

        def drop(ty):
            model.live[:] = [e for e in model.live if e["type"] != ty]
        steps += [("remove Events (first of 4)", lambda t: t.remove_block(BlockType(TYPE_OF["Events"])), lambda: drop(TYPE_OF["Events"])),
                  ("add Events again", lambda t: t.add_block(ev2), lambda: model.live.append(entry("Events", ev2))),
                  ("replace Data3D (first, big tail)", lambda t: t.replace_block(d3), lambda: (drop(TYPE_OF["Data3D"]), model.live.append(entry("Data3D", d3)))),
                  ("remove big EMG", lambda t: t.remove_block(BlockType(TYPE_OF["EMG"])), lambda: drop(TYPE_OF["EMG"]))]
        log = []
        with Tdf(path).allow_write() as t:
            for desc, call, upd in steps:
                n += 1
                log.append(desc)
                case = dict(big=True, ops=list(log))
                try:
                    call(t)
                    upd()
                except Exception as ex:
                    fails.append(_f("C11,C04,C10", "C11.valid_operation_refused", f"valid operation '{desc}' raised {ex!r}", case, seed))
                    break
                fl, _ = check_disk(path, model, case, seed, f"after '{desc}'")
                fails += fl
                fails += check_memory(t, path, model, case, seed, f"after '{desc}'")
                for m in model.live:
                    m.pop("fresh", None)
                if fails:
                    break
    finally:
        shutil.rmtree(d, ignore_errors=True)
    return dict(what="add/remove/replace with more than 2 MiB of blocks after the one touched (real code)", cases=n, label="bounded", bound="one history, 8 operations"), fails


def check_same_size_replace(seed, tier):
    """C04 C10 C11: a block replaced by one of exactly the same encoded size but another format code (and back): the entry
    carries the new format, and what is read is what was stored"""
    from basictdf import Tdf
    from basictdf.tdfData3D import Data3dBlockFormat
    warnings.simplefilter("ignore")
    fails, n = [], 0
    d = tempfile.mkdtemp(prefix="verif_same_")
    try:
        for i in range(3 if tier == "quick" else 12):
            rng = random.Random(f"{seed}:same:{i}")
            nf = rng.randint(2, 6)
            a = gen.data3d(rng, 1, nf, fmt=Data3dBlockFormat.byTrack, nlinks=0, masks=[[True] * nf])
            gap = rng.randrange(1, nf)
            b = gen.data3d(rng, 1, nf + 1, fmt=Data3dBlockFormat.byTrackWithoutLinks, masks=[[k != gap for k in range(nf + 1)]])
            if a.nBytes != b.nBytes:
                continue
            a2 = gen.data3d(rng, 1, nf, fmt=Data3dBlockFormat.byTrack, nlinks=0, masks=[[True] * nf])
            a2.creation_date, a2.last_modification_date = a.creation_date, a.last_modification_date
            path = os.path.join(d, f"s{i}.tdf")
            Tdf.new(path)
            model = Model(14, [])
            ev = gen_block(rng, "Events")

            def entry(nm, blk, comment="Generated by basicTDF"):
                return dict(type=TYPE_OF[nm], format=blk.format.value, payload=real_write(nm, blk), comment=comment, cdate=secs(blk.creation_date), mdate=secs(blk.last_modification_date), fresh=True)
            log = []
            with Tdf(path).allow_write() as t:
                steps = [("add Events", lambda: t.add_block(ev), lambda: model.live.append(entry("Events", ev))),
                         ("add Data3D byTrack (last block)", lambda: t.add_block(a), lambda: model.live.append(entry("Data3D", a))),
                         ("data3D = byTrackWithoutLinks block of the same size", lambda: setattr(t, "data3D", b), lambda: (model.live.pop(), model.live.append(entry("Data3D", b)))),
                         ("replace_block(byTrack block of the same size, comment)", lambda: t.replace_block(a, comment="again"), lambda: (model.live.pop(), model.live.append(entry("Data3D", a, "again")))),
                         # same size, same format, same place in the file, other samples: only the payload tells them apart
                         ("replace_block(byTrack block of the same size and format, other samples)", lambda: t.replace_block(a2), lambda: (model.live.pop(), model.live.append(entry("Data3D", a2, "again")))),
                         ("data3D = the first block again", lambda: setattr(t, "data3D", a), lambda: (model.live.pop(), model.live.append(entry("Data3D", a, "again"))))]
                for desc, call, upd in steps:
                    n += 1
                    log.append(desc)
                    case = dict(same_size=i, ops=list(log))
                    try:
                        call()
                        upd()
                    except Exception as ex:
                        fails.append(_f("C11,C04,C10", "C11.valid_operation_refused", f"valid operation '{desc}' raised {ex!r}", case, seed))
                        break
                    fl, _ = check_disk(path, model, case, seed, f"after '{desc}'")
                    fails += fl
                    fails += check_memory(t, path, model, case, seed, f"after '{desc}'")
                    for m in model.live:
                        m.pop("fresh", None)
                    if fails:
                        break
            if fails:
                break
    finally:
        shutil.rmtree(d, ignore_errors=True)
    return dict(what="replace by a block of the same size and another format (real code)", cases=n, label="bounded", bound="Data3D byTrack <-> byTrackWithoutLinks of equal size, last live block"), fails


def _mk(props):
    def run(seed, tier, root=None):
        st, fails = run_histories(seed, tier, root, props)
        extra = []
        if "C07" in props:
            extra.append(check_noncompact(seed, tier))
        if any(p in props for p in ("C03", "C04", "C09", "C10", "C11")):
            extra.append(check_large_tail(seed, tier))
        if any(p in props for p in ("C04", "C10", "C11")):
            extra.append(check_same_size_replace(seed, tier))
        for st2, fl in extra:
            st["cases"] += st2["cases"]
            st["bound"] += "; " + st2["what"] + ": " + st2["bound"]
            fails += [f for f in fl if _relevant(f, props)]
        return st, fails
    return run


run_c03 = _mk(["C03"])
run_c04 = _mk(["C04"])
run_c07 = _mk(["C07"])
run_c09 = _mk(["C09"])
run_c10 = _mk(["C10"])
run_c11 = _mk(["C11"])
