"""BTS-capture clauses of C02 / C06 / C12: one concrete instance (tests/test_files/2838~aa~Walking 01.tdf, 8 blocks), labelled
'concrete instance', never counted as proof.  The file is parsed by an independent struct-based reader."""
import glob
import io
import os
import random
import struct

import numpy as np

from harness import codec_checks as cc
from harness.refcodec import encode

LAYOUT_OF_TYPE = {2: "Calibration", 4: "Data2D", 5: "Data3D", 6: "OpticalSetup", 7: "PlatformsCalibration", 9: "PlatformsData",
                  11: "EMG", 12: "ForceTorque3D", 16: "Events"}


def capture_path(repo_root):
    c = glob.glob(os.path.join(repo_root, "tests", "test_files", "*.tdf"))
    return c[0] if c else None


def parse_table(raw):
    """independent reader of header + jump table -> list of dict(type, format, offset, size, comment_raw)"""
    assert raw[:16] == bytes([0x82, 0x4B, 0x60, 0x41, 0xD3, 0x11, 0x84, 0xCA, 0x60, 0x00, 0xB6, 0xAC, 0x16, 0x68, 0x0C, 0x08]), "signature"
    version, n = struct.unpack_from("<Ii", raw, 16)
    out = []
    for i in range(n):
        base = 64 + 288 * i
        t, f, off, size, cd, md, ad = struct.unpack_from("<IIiiiii", raw, base)
        out.append(dict(slot=i, type=t, format=f, offset=off, size=size, creation=cd, modification=md, access=ad,
                        comment_raw=raw[base + 32:base + 288]))
    return dict(version=version, nEntries=n, entries=out)


def check_capture(repo_root, seed, nscramble=2):
    """returns (stats, failures)"""
    path = capture_path(repo_root)
    if path is None:
        return dict(blocks=0, note="capture file not found"), []
    raw = open(path, "rb").read()
    tab = parse_table(raw)
    rng = random.Random(f"{seed}:capture")
    fails = []
    nblocks = 0
    accounted = 0
    for e in tab["entries"]:
        if e["type"] == 0:
            continue
        name = LAYOUT_OF_TYPE.get(e["type"])
        if name is None:
            continue
        nblocks += 1
        payload = raw[e["offset"]:e["offset"] + e["size"]]
        C = cc._cls(name)
        rep = dict(capture=os.path.basename(path), slot=e["slot"], type=e["type"], offset=e["offset"], size=e["size"])
        try:
            s = io.BytesIO(payload + b"\xA5" * 9)
            blk = C._build(s, e["format"])
        except Exception as ex:
            fails.append(cc._fail("CAP.decode", name, f"decoding block of type {e['type']} of the BTS capture raised {ex!r}", rep))
            continue
        if s.tell() != e["size"]:
            fails.append(cc._fail("CAP.consumed", name, f"decoding consumed {s.tell()} bytes, the jump table records {e['size']}", rep))
        try:
            if blk.nBytes != e["size"]:
                fails.append(cc._fail("CAP.size", name, f"decoded block reports nBytes = {blk.nBytes}, the jump table records {e['size']}", rep))
        except Exception as ex:
            fails.append(cc._fail("CAP.size", name, f"nBytes raised {ex!r}", rep))
        try:
            ref, dc = encode(name, blk)
        except Exception as ex:
            fails.append(cc._fail("CAP.layout", name, f"decoded block cannot be encoded by the layout tables: {ex!r}", rep))
            continue
        if len(ref) != len(payload):
            fails.append(cc._fail("CAP.layout", name, f"layout encoding of the decoded block has {len(ref)} bytes, the capture has {len(payload)}", rep))
        else:
            bad = [i for i in range(len(ref)) if not dc[i] and ref[i] != payload[i]]
            accounted += len(ref)
            if bad:
                fails.append(cc._fail("CAP.layout", name, f"{len(bad)} defined bytes of the capture are not reproduced by the layout encoding of the decoded "
                                      f"values (first at block offset {bad[0]})", rep))
            for k in range(nscramble):
                scr = bytes(rng.randrange(256) if dc[i] else payload[i] for i in range(len(payload)))
                try:
                    blk2 = C._build(io.BytesIO(scr), e["format"])
                    ref2, _ = encode(name, blk2)
                    if ref2 != ref:
                        fails.append(cc._fail("CAP.dontcare", name, "scrambling the don't-care bytes of the capture changed the decoded content", rep))
                        break
                    w = cc.real_write(name, blk2)
                    if w != ref:
                        fails.append(cc._fail("CAP.reencode", name, "re-encoding the decoded capture block does not give the canonical bytes of the original size", rep))
                        break
                except Exception as ex:
                    fails.append(cc._fail("CAP.dontcare", name, f"scrambling the don't-care bytes of the capture made decoding fail: {ex!r}", rep))
                    break
    for f in fails:
        f["recipe"] = dict(kind="capture")
    return dict(blocks=nblocks, bytes_accounted=accounted, file=os.path.basename(path)), fails
