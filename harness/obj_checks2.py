"""Executable contracts for C15 (channel maps) and C14 (equality) on the real code (bounded, model-based)."""
import copy
import io
import random
import warnings

import numpy as np

from harness import gen
from harness.codec_checks import real_write, real_build
from harness.obj_checks import _f, _snapshot
from harness.refcodec import encode, EncodeError


# ------------------------------------------------------------------------------------------------ C15
class _Chan:
    """adapter: one of the three channel-mapped block types"""

    def __init__(self, name):
        self.name = name

    def new(self, rng, n=4):
        if self.name == "EMG":
            return gen.emg(rng, 0, n)
        if self.name == "PlatformsCalibration":
            from basictdf.tdfForcePlatformsCalibration import ForcePlatformsCalibrationDataBlock
            return ForcePlatformsCalibrationDataBlock()
        return gen.plats_data(rng, 0, n)

    def item(self, rng, i, n=4):
        if rng.random() < 0.5:
            i = rng.randint(0, 2)         # labels are not unique: several items may carry the same one
        if self.name == "EMG":
            return gen.emg_track(rng, n, lab=f"s{i}")
        if self.name == "PlatformsCalibration":
            return gen.plat_info(rng, lab=f"p{i}")
        return gen.plat_data(rng, n)

    def pairs(self, b):
        if self.name == "EMG":
            return list(zip(list(b._emgMap), list(b._signals)))
        if self.name == "PlatformsCalibration":
            return list(zip(list(b._platformMap), list(b._platforms)))
        return list(zip(list(b._plat_map), list(b._platforms)))

    def lens(self, b):
        if self.name == "EMG":
            return len(b._emgMap), len(b._signals)
        if self.name == "PlatformsCalibration":
            return len(b._platformMap), len(b._platforms)
        return len(b._plat_map), len(b._platforms)

    def add(self, b, item, channel=None):
        if self.name == "EMG":
            return b.addSignal(item, channel=channel)
        return b.add_platform(item, channel)


def check_c15(seed, tier):
    warnings.simplefilter("ignore")
    fails, ncase = [], 0
    nseq = 60 if tier == "quick" else 600
    for name in ("EMG", "PlatformsCalibration", "PlatformsData"):
        A = _Chan(name)
        for si in range(nseq):
            rng = random.Random(f"{seed}:c15:{name}:{si}")
            start = rng.choice(["empty", "ctor", "decoded"])
            b = A.new(rng)
            model = []
            hist = [start]
            if start == "ctor" and name == "PlatformsCalibration":
                from basictdf.tdfForcePlatformsCalibration import ForcePlatformsCalibrationDataBlock
                its = [A.item(rng, 100 + i) for i in range(rng.randint(0, 3))]
                b = ForcePlatformsCalibrationDataBlock(platforms=list(its))
                model = list(A.pairs(b))
                if [p for _, p in model] != its:
                    fails.append(_f("C15", "C15.ctor", name, "constructor-supplied platforms are not the block's platforms", dict(block=name, seq=si, hist=hist), seed))
            elif start != "empty":
                for i in range(rng.randint(0, 3)):
                    it = A.item(rng, 100 + i)
                    ch = rng.choice([None, rng.randint(0, 6), rng.randint(0, 30)])
                    try:
                        A.add(b, it, ch)
                    except ValueError:
                        pass
                if start == "decoded":
                    lay = {"EMG": "EMG", "PlatformsCalibration": "PlatformsCalibration", "PlatformsData": "PlatformsData"}[name]
                    chans = [int(c) for c, _ in A.pairs(b)]
                    b = real_build(lay, io.BytesIO(real_write(lay, b)), b)
                    if [int(c) for c, _ in A.pairs(b)] != chans:
                        fails.append(_f("C15", "C15.decode", name, "decoding changed the channel numbers", dict(block=name, seq=si, hist=hist), seed))
                model = list(A.pairs(b))
            ncase += 1
            for step in range(rng.randint(1, 8)):
                before = list(A.pairs(b))
                op = rng.choice(["add_auto", "add_free", "add_taken", "add_badlabel", "remove", "bulk"])
                if op == "add_badlabel" and name != "PlatformsData":
                    # an item whose label cannot be stored: accepted now and refused at encoding time, or refused now -- either
                    # way the two lists stay in step and the earlier pairs are untouched
                    it = A.item(rng, step)
                    it.label = rng.choice(["x" * 300, "snow \u2603", "y" * 256])
                    ch = rng.choice([None, max([int(c) for c, _ in before] + [0]) + 5])
                    try:
                        A.add(b, it, ch)
                        accepted = True
                    except Exception:
                        accepted = False
                    after = A.pairs(b)
                    lm, li = A.lens(b)
                    case = dict(block=name, seq=si, hist=hist + [op])
                    if lm != li:
                        fails.append(_f("C15", "C15.lengths", name, f"channel list has {lm} entries, item list {li} after an add of an item with an unstorable label ({'accepted' if accepted else 'refused'})", case, seed))
                        break
                    if [(int(c), id(p)) for c, p in after[:len(before)]] != [(int(c), id(p)) for c, p in before] or (not accepted and len(after) != len(before)):
                        fails.append(_f("C15", "C15.frame", name, "an add of an item with an unstorable label changed the existing pairs / a refused add left something behind", case, seed))
                        break
                    if accepted:            # take it out again so that the block stays encodable
                        if name == "EMG":
                            del b._signals[-1]; del b._emgMap[-1]
                        else:
                            b.remove_platform(len(b._platforms) - 1)
                    hist.append(op)
                    continue
                if op == "add_badlabel":
                    op = "add_auto"
                case = dict(block=name, seq=si, hist=hist + [op])
                try:
                    if op == "add_auto":
                        it = A.item(rng, step)
                        if before and rng.random() < 0.5:
                            import copy as _copy
                            it = _copy.deepcopy(rng.choice(before)[1])      # an equal twin of an item already there: another object, another channel
                        A.add(b, it, None)
                        after = A.pairs(b)
                        if len(after) != len(before) + 1 or after[-1][1] is not it or any(int(after[-1][0]) == int(c) for c, _ in before):
                            fails.append(_f("C15", "C15.auto", name, f"automatic channel {after[-1][0] if after else None} is in use or the item was not appended", case, seed))
                        if [(int(c), id(p)) for c, p in after[:-1]] != [(int(c), id(p)) for c, p in before]:
                            fails.append(_f("C15", "C15.frame", name, "adding a pair changed an existing pair", case, seed))
                    elif op == "add_free":
                        it = A.item(rng, step)
                        used = [int(x) for x, _ in before]
                        free = rng.choice([c for c in range(0, 8 if rng.random() < 0.6 else 40) if c not in used] or [c for c in range(0, 400) if c not in used])
                        if rng.random() < 0.25:
                            # towards the ends of the channel field (unsigned 16 bit in the platform-data block, signed in the
                            # other two), leaving room for automatic channels after it
                            edge = [c for c in ([32767, 32768, 40000, 65000] if name == "PlatformsData" else [30000, -1, -32768]) if c not in used and c > max(used + [-40000]) - 70000]
                            if edge and (name == "PlatformsData" or max(used + [0]) < 30000):
                                free = rng.choice(edge)
                        A.add(b, it, free)
                        after = A.pairs(b)
                        if len(after) != len(before) + 1 or int(after[-1][0]) != free or after[-1][1] is not it:
                            fails.append(_f("C15", "C15.explicit", name, f"explicit free channel {free} not honoured: pairs now {[int(c) for c, _ in after]}", case, seed))
                        if [(int(c), id(p)) for c, p in after[:-1]] != [(int(c), id(p)) for c, p in before]:
                            fails.append(_f("C15", "C15.frame", name, "adding a pair changed an existing pair", case, seed))
                    elif op == "add_taken" and before:
                        taken = int(rng.choice(before)[0])
                        try:
                            A.add(b, A.item(rng, step), taken)
                            fails.append(_f("C15", "C15.taken", name, f"explicit channel {taken} already in use was not refused; map is now {[int(c) for c, _ in A.pairs(b)]}", case, seed))
                        except ValueError:
                            if [(int(c), id(p)) for c, p in A.pairs(b)] != [(int(c), id(p)) for c, p in before]:
                                fails.append(_f("C15", "C15.frame", name, "a refused add changed the block", case, seed))
                    elif op == "remove" and before:
                        pos = rng.randrange(len(before))
                        later_twins = [i for i, (_, p) in enumerate(before) if any(q == p for _, q in before[:i])] if name == "PlatformsCalibration" else []
                        if later_twins and rng.random() < 0.7:
                            pos = rng.choice(later_twins)       # the second of two equal items: position and value disagree on which pair it is
                        if name == "EMG":
                            lab = before[pos][1].label
                            b.removeSignal(lab)
                            # by label: what is removed carries the label (at least one item goes), and every survivor keeps
                            # its place in the order and the channel it was given
                            after = A.pairs(b)
                            keep = [(int(c), id(p)) for c, p in before if id(p) in {id(q) for _, q in after}]
                            gone = [p for _, p in before if id(p) not in {id(q) for _, q in after}]
                            if [(int(c), id(p)) for c, p in after] != keep:
                                fails.append(_f("C15", "C15.remove", name, f"after removeSignal({lab!r}) the surviving signals do not keep their channels: "
                                                f"{[(int(c), p.label) for c, p in after]} from {[(int(c), p.label) for c, p in before]}", case, seed))
                            if not gone or any(p.label != lab for p in gone):
                                fails.append(_f("C15", "C15.remove", name, f"removeSignal({lab!r}) removed {[p.label for p in gone]}", case, seed))
                            hist.append(op)
                            lm, li = A.lens(b)
                            if lm != li:
                                fails.append(_f("C15", "C15.lengths", name, f"channel list has {lm} entries, item list {li} after {op}", case, seed))
                                break
                            continue
                        elif name == "PlatformsCalibration":
                            if rng.random() < 0.5:
                                b.remove_platform(pos)
                            else:
                                tgt = before[pos][1]
                                pos = next(i for i, (_, p) in enumerate(before) if p == tgt)
                                b.remove_platform(tgt)
                        else:
                            continue
                        want = before[:pos] + before[pos + 1:]
                        if [(int(c), id(p)) for c, p in A.pairs(b)] != [(int(c), id(p)) for c, p in want]:
                            fails.append(_f("C15", "C15.remove", name, "removing one item did not remove exactly its (channel, item) pair", case, seed))
                    elif op == "bulk":
                        if name == "PlatformsCalibration":
                            kind = rng.choice(["add_platforms", "add_platforms_ch", "add_platforms_dup", "add_platforms_surplus", "remove_platforms", "assign"])
                            if kind in ("add_platforms_dup", "add_platforms_surplus"):
                                # whatever a bulk add with a channel named twice / with more channels than platforms does (refuse,
                                # add a part), the pairs it leaves are pairs: same length, channels unique, earlier pairs untouched
                                its = [A.item(rng, 50 + i) for i in range(2 if kind == "add_platforms_dup" else 1)]
                                free = [c for c in range(40, 120) if c not in [int(x) for x, _ in before]]
                                chs = [free[0], free[0]] if kind == "add_platforms_dup" else [free[0], free[1]]
                                try:
                                    b.add_platforms(its, chs)
                                except Exception:
                                    pass
                                after = A.pairs(b)
                                if [(int(c), id(p)) for c, p in after[:len(before)]] != [(int(c), id(p)) for c, p in before]:
                                    fails.append(_f("C15", "C15.frame", name, f"{kind} changed an existing pair", case, seed))
                                if any(id(p) not in [id(x) for x in its] for _, p in after[len(before):]):
                                    fails.append(_f("C15", "C15.bulk", name, f"{kind} added something that is not one of the platforms given", case, seed))
                                hist.append(op + ":" + kind)
                                lm, li = A.lens(b)
                                chans = [int(c) for c, _ in A.pairs(b)]
                                if lm != li:
                                    fails.append(_f("C15", "C15.lengths", name, f"channel list has {lm} entries, item list {li} after {kind}", case, seed))
                                    break
                                if len(set(chans)) != len(chans) or lm != len(chans):
                                    fails.append(_f("C15", "C15.unique", name, f"duplicate channel numbers {list(b._platformMap)} after {kind} with channels {chs}", case, seed))
                                    break
                                continue
                            if kind == "add_platforms":
                                its = [A.item(rng, 50 + i) for i in range(rng.randint(0, 3))]
                                b.add_platforms(its)
                                after = A.pairs(b)
                                if [id(p) for _, p in after] != [id(p) for _, p in before] + [id(x) for x in its]:
                                    fails.append(_f("C15", "C15.bulk", name, "add_platforms did not append the platforms in order", case, seed))
                            elif kind == "add_platforms_ch":
                                its = [A.item(rng, 50 + i) for i in range(rng.randint(1, 3))]
                                chs = rng.sample([c for c in range(40, 120) if c not in [int(x) for x, _ in before]], len(its))
                                b.add_platforms(its, chs)
                                after = A.pairs(b)
                                if [(int(c), id(p)) for c, p in after] != [(int(c), id(p)) for c, p in before] + [(c, id(p)) for c, p in zip(chs, its)]:
                                    fails.append(_f("C15", "C15.bulk", name, "add_platforms with channels did not attach the given channels", case, seed))
                            elif kind == "remove_platforms" and before:
                                b.remove_platforms([0])
                                if [(int(c), id(p)) for c, p in A.pairs(b)] != [(int(c), id(p)) for c, p in before[1:]]:
                                    fails.append(_f("C15", "C15.bulk", name, "remove_platforms([0]) did not remove exactly the first pair", case, seed))
                            elif kind == "assign":
                                its = [(rng.randint(0, 5) * 7 + i, A.item(rng, 70 + i)) for i in range(rng.randint(0, 3))]
                                b.platforms = its
                                if [(int(c), id(p)) for c, p in A.pairs(b)] != [(c, id(p)) for c, p in its]:
                                    fails.append(_f("C15", "C15.bulk", name, "platforms = [...] did not install exactly the given (channel, platform) pairs", case, seed))
                        elif name == "PlatformsData":
                            its = [A.item(rng, 50 + i) for i in range(rng.randint(0, 3))]
                            if rng.random() < 0.4 and its:
                                its[rng.randrange(len(its))] = "junk"
                                try:
                                    b.platforms = its
                                    fails.append(_f("C15", "C15.bulk", name, "assigning a list with a non-platform was accepted", case, seed))
                                except Exception:
                                    if [(int(c), id(p)) for c, p in A.pairs(b)] != [(int(c), id(p)) for c, p in before]:
                                        fails.append(_f("C15", "C15.bulk", name, "a refused bulk assignment changed the block", case, seed))
                            else:
                                b.platforms = its
                                after = A.pairs(b)
                                if [id(p) for _, p in after] != [id(x) for x in its]:
                                    fails.append(_f("C15", "C15.bulk", name, "platforms = [...] did not install exactly the given platforms", case, seed))
                except Exception as e:
                    fails.append(_f("C15", "C15.exception", name, f"{op}: unexpected {e!r}", case, seed))
                    break
                hist.append(op)
                lm, li = A.lens(b)
                chans = [int(c) for c, _ in A.pairs(b)]
                if lm != li:
                    fails.append(_f("C15", "C15.lengths", name, f"channel list has {lm} entries, item list {li} after {op}", case, seed))
                    break
                if len(set(chans)) != len(chans):
                    fails.append(_f("C15", "C15.unique", name, f"duplicate channel numbers {chans} after {op}", case, seed))
                    break
            # encode emits the pairs in order, and decode gives them back
            try:
                lay = name
                raw = real_write(lay, b)
                ref, _ = encode(lay, b)
                if raw != ref:
                    fails.append(_f("C15", "C15.encode", name, "encoding does not emit the (channel, item) pairs in order", dict(block=name, seq=si, hist=hist), seed))
                r = real_build(lay, io.BytesIO(raw), b)
                if [int(c) for c, _ in A.pairs(r)] != [int(c) for c, _ in A.pairs(b)]:
                    fails.append(_f("C15", "C15.decode", name, "decode does not give back the channel numbers", dict(block=name, seq=si, hist=hist), seed))
            except Exception as e:
                fails.append(_f("C15", "C15.encode", name, f"encode/decode after the history raised {e!r}", dict(block=name, seq=si, hist=hist), seed))
            if len(fails) > 20:
                break
    # directed: two equal platforms (same label and geometry) on different channels -- removal by position removes that position
    try:
        import copy as _copy
        from basictdf.tdfForcePlatformsCalibration import ForcePlatformsCalibrationDataBlock
        rng = random.Random(f"{seed}:c15:twins")
        for which in (0, 1, 2):
            ncase += 1
            b = ForcePlatformsCalibrationDataBlock()
            p0, p1 = gen.plat_info(rng), gen.plat_info(rng)
            items = [p0, p1, _copy.deepcopy(p0)]
            for it, ch in zip(items, (4, 7, 9)):
                b.add_platform(it, ch)
            b.remove_platform(which)
            want = [(c, id(p)) for k, (c, p) in enumerate(zip((4, 7, 9), items)) if k != which]
            got = [(int(c), id(p)) for c, p in zip(b._platformMap, b._platforms)]
            if got != want:
                fails.append(_f("C15", "C15.remove", "PlatformsCalibration", f"with two equal platforms on channels 4 and 9, remove_platform({which}) left channels {[c for c, _ in got]} "
                                f"(the item at each position keeps its channel: expected {[c for c, _ in want]} with the same objects)", dict(block="PlatformsCalibration", directed="equal twins", index=which), seed))
    except Exception as e:
        fails.append(_f("C15", "C15.exception", "PlatformsCalibration", f"removal by position with equal twins raised {e!r}", dict(block="PlatformsCalibration", directed="equal twins"), seed))
    return dict(what="model-based histories on the three channel-mapped blocks (real code)", cases=ncase, label="bounded", bound=f"{nseq} random histories of <= 8 operations per block type"), fails


# ------------------------------------------------------------------------------------------------ C14
def _other(label):
    return "x" if label != "x" else "y"


def _vary(name, rng, b):
    """list of (description, block b' that differs from b in exactly one respect)"""
    out = []

    def clone():
        return real_build(name, io.BytesIO(real_write(name, b)), b)
    try:
        # every header float: the next representable float32 is another value
        for fa in ("startTime", "start_time"):
            v = getattr(b, fa, None)
            if isinstance(v, (float, np.floating)) and np.isfinite(np.float32(v)):
                w = float(np.nextafter(np.float32(v), np.float32(np.inf)))
                if np.isfinite(w) and np.float32(w) != np.float32(v):
                    c = clone(); setattr(c, fa, w); out.append((f"{fa} changed by one float32 step", c))
        # a wholly-missing frame against a frame of zeros (and the other way round), first track / platform
        from harness import edits as _ed
        if name in _ed.TRACKS_OF:
            attr, tname = _ed.TRACKS_OF[name]
            if getattr(b, attr):
                fields = [f for f, _ in _ed.TRACK_FIELDS[tname]]
                lead = getattr(getattr(b, attr)[0], fields[0])
                nfr = lead.shape[0]
                gaps = [f for f in range(nfr) if np.isnan(lead[f]).all()]
                pres = [f for f in range(nfr) if not np.isnan(lead[f]).any()]
                for which, frames, val in (("a missing frame replaced by zeros", gaps, 0.0), ("a present frame replaced by a gap", pres, np.nan)):
                    if frames:
                        c = clone()
                        t0 = getattr(c, attr)[0]
                        for f in fields:
                            a = np.array(getattr(t0, f), dtype=getattr(t0, f).dtype, copy=True)
                            a[frames[0]] = val
                            setattr(t0, f, a)
                        out.append((which, c))
        for cnt_attr, lst_attr in (("nFrames", "_tracks"), ("nSamples", "_signals"), ("n_frames", "_platforms")):
            if hasattr(b, cnt_attr) and hasattr(b, lst_attr) and name in ("Data3D", "ForceTorque3D", "EMG", "PlatformsData") and len(getattr(b, lst_attr)) == 0:
                c = clone(); setattr(c, cnt_attr, getattr(b, cnt_attr) + 1); out.append((f"{cnt_attr} changed (no items)", c))
        if name == "Data3D":
            c = clone(); c.add_track(gen.marker_track(rng, c.nFrames)); out.append(("one track appended", c))
            if b._tracks:
                c = clone(); del c._tracks[-1]; out.append(("one track removed", c))
                c = clone(); c._tracks[0].label = _other(c._tracks[0].label); out.append(("label changed", c))
                c = clone(); d = c._tracks[0].data; d[0] = [1.5, 2.5, 3.5] if not np.array_equal(d[0], [1.5, 2.5, 3.5]) else [9.0, 9.0, 9.0]; out.append(("sample changed", c))
            c = clone(); c.frequency = b.frequency + 1 if b.frequency < 2**31 - 1 else 0; out.append(("frequency changed", c))
        elif name == "ForceTorque3D":
            c = clone(); c.add_track(gen.ft_track(rng, c.nFrames)); out.append(("one track appended", c))
            if b._tracks:
                c = clone(); del c._tracks[-1]; out.append(("one track removed", c))
                c = clone(); c._tracks[0].label = _other(c._tracks[0].label); out.append(("label changed", c))
                c = clone(); c._tracks[0].force[0] = [1.5, 2.5, 3.5] if not np.array_equal(c._tracks[0].force[0], [1.5, 2.5, 3.5]) else [9.0, 9.0, 9.0]; out.append(("sample changed", c))
            c = clone(); c.frequency = b.frequency + 1 if b.frequency < 2**31 - 1 else 0; out.append(("frequency changed", c))
        elif name == "EMG":
            c = clone(); c.addSignal(gen.emg_track(rng, c.nSamples)); out.append(("one signal appended", c))
            if b._signals:
                c = clone(); del c._signals[-1]; del c._emgMap[-1]; out.append(("one signal removed", c))
                c = clone(); c._signals[0].label = _other(c._signals[0].label); out.append(("label changed", c))
                c = clone(); c._emgMap[0] = max(int(x) for x in c._emgMap) + 1; out.append(("channel changed", c))
                c = clone(); c._signals[0].data[0] = 1.5 if c._signals[0].data[0] != 1.5 else 9.0; out.append(("sample changed", c))
            c = clone(); c.frequency = b.frequency + 1 if b.frequency < 2**31 - 1 else 0; out.append(("frequency changed", c))
        elif name == "PlatformsData":
            c = clone(); c.add_platform(gen.plat_data(rng, c.n_frames)); out.append(("one platform appended", c))
            if b._platforms:
                c = clone(); del c._platforms[-1]; del c._plat_map[-1]; out.append(("one platform removed", c))
                c = clone(); c._plat_map[0] = max(int(x) for x in c._plat_map) + 1; out.append(("channel changed", c))
                c = clone(); f = c._platforms[0].force; f[0] = [1.5, 2.5, 3.5] if not np.array_equal(f[0], [1.5, 2.5, 3.5]) else [9.0, 9.0, 9.0]; out.append(("sample changed", c))
            c = clone(); c.frequency = b.frequency + 1 if b.frequency < 2**31 - 1 else 0; out.append(("frequency changed", c))
        elif name == "PlatformsCalibration":
            c = clone(); c.add_platform(gen.plat_info(rng)); out.append(("one platform appended", c))
            if b._platforms:
                c = clone(); c.remove_platform(len(c._platforms) - 1); out.append(("one platform removed", c))
                c = clone(); c._platforms[0].label = _other(c._platforms[0].label); out.append(("label changed", c))
                c = clone(); c._platformMap[0] = max(int(x) for x in c._platformMap) + 1; out.append(("channel changed", c))
                c = clone(); c._platforms[0].size = np.array([123.0, 456.0], "<f4") + (1 if np.array_equal(c._platforms[0].size, [123.0, 456.0]) else 0); out.append(("size changed", c))
        elif name == "Data2D":
            c = clone(); c.frequency = b.frequency + 1 if b.frequency < 2**31 - 1 else 0; out.append(("frequency changed", c))
            if b.nCams:
                c = clone(); cm = np.array(c._camMap).copy(); cm[0] = max(int(x) for x in cm) + 1; c._camMap = cm; out.append(("camera channel changed", c))
                c = clone(); d = c.data
                if d[0, 0] is None:
                    d[0, 0] = np.ones((1, 2), "<f4")
                else:
                    d[0, 0] = np.vstack([d[0, 0], np.ones((1, 2), "<f4")])
                out.append(("one point appended", c))
        elif name == "Calibration":
            if b.cam_data:
                c = clone(); c.cam_data = c.cam_data[:-1]; c.cameras_calibration_map = c.cameras_calibration_map[:-1]; out.append(("one camera removed", c))
                c = clone(); t = c.cam_data[0].translation_vector.copy(); t[0] = 1.5 if t[0] != 1.5 else 9.0; c.cam_data[0].translation_vector = t; out.append(("camera parameter changed", c))
                c = clone(); m = c.cameras_calibration_map.copy(); m[0] = (int(m[0]) + 1) if int(m[0]) < 30000 else 0; c.cameras_calibration_map = m; out.append(("camera channel changed", c))
            c = clone(); c.cam_data = list(c.cam_data) + [gen.bts_cam(rng, 70) if int(b.format) == 2 else gen.seelab_cam(rng)]
            c.cameras_calibration_map = np.append(c.cameras_calibration_map, np.int16(77)).astype("<i2"); out.append(("one camera appended", c))
            c = clone(); v = c.calibration_volume_size.copy(); v[0] = 1.5 if v[0] != 1.5 else 9.0; c.calibration_volume_size = v; out.append(("volume changed", c))
            if b.cam_data and int(b.format) == 2:
                # coefficient tables that differ by a zero at the front / at the back of the 70 slots
                for which, edit in (("x table: first coefficient zero vs that coefficient removed", lambda a: (np.concatenate([[0.0], a[1:]]), a[1:])),
                                    ("y table shifted by one slot", lambda a: (np.concatenate([[0.0], a[:-1]]), a))):
                    c1, c2 = clone(), clone()
                    attr = "x_distortion_coefficients" if which.startswith("x") else "y_distortion_coefficients"
                    base = np.array(getattr(c1.cam_data[0], attr), dtype="<f8")
                    base[1] = 2.5
                    v1, v2 = edit(base)
                    setattr(c1.cam_data[0], attr, np.array(v1, dtype="<f8"))
                    setattr(c2.cam_data[0], attr, np.array(v2, dtype="<f8"))
                    out.append((which, (c1, c2)))
        elif name == "OpticalSetup":
            c = clone(); c.channels.append(gen.opt_channel(rng)); out.append(("one channel appended", c))
            if b.channels:
                c = clone(); del c.channels[-1]; out.append(("one channel removed", c))
                c = clone(); c.channels[0].camera_name = _other(c.channels[0].camera_name); out.append(("label changed", c))
        elif name == "Events":
            c = clone(); c.events.append(gen.event(rng)); out.append(("one event appended", c))
            if b.events:
                c = clone(); del c.events[-1]; out.append(("one event removed", c))
                c = clone(); c.events[0].label = _other(c.events[0].label); out.append(("label changed", c))
                from basictdf.tdfEvents import Event, EventsDataType
                for pos, e0 in enumerate(b.events):
                    if e0.type == EventsDataType.eventSequence:
                        last = float(e0.values[-1]) if len(e0.values) else 0.5
                        c2 = clone(); c2.events[pos] = Event(e0.label, list(e0.values) + [last], e0.type); out.append(("one event value appended (a repeat of the last)", c2))
                        c2 = clone(); c2.events[pos] = Event(e0.label, list(e0.values) + [7.0], e0.type); out.append(("one event value appended", c2))
                    if len(e0.values):
                        c3 = clone(); c3.events[pos] = Event(e0.label, list(e0.values)[:-1], e0.type); out.append(("one event value removed", c3))
            c = clone(); c.start_time = np.float32(b.start_time) + np.float32(1.0) if np.isfinite(np.float32(b.start_time) + np.float32(1.0)) and np.float32(b.start_time) + np.float32(1.0) != np.float32(b.start_time) else np.float32(0.5)
            out.append(("start time changed", c))
    except Exception as e:      # a variation that cannot be built is skipped, not a failure
        pass
    return out


def check_c14(seed, tier):
    warnings.simplefilter("ignore")
    fails, n = [], 0
    reps = 12 if tier == "quick" else 80
    for name, g in gen.BLOCK_GEN.items():
        for i in range(reps):
            rng = random.Random(f"{seed}:c14:{name}:{i}")
            b = g(rng)
            if name == "Calibration" and int(b.format) == 2:
                b = gen.calibration(random.Random(f"{seed}:c14b:{i}"), bts=True)
                b.cam_data = [gen.bts_cam(rng, 70) for _ in b.cam_data]
            if name == "Data2D" and i % 3 == 1:
                # a NaN coordinate (not a gap: an empty cell is None) -- the block still equals itself and its decode
                cells = [(f, c) for f in range(b.nFrames) for c in range(b.nCams) if b.data[f, c] is not None]
                if cells:
                    f, c = rng.choice(cells)
                    b.data[f, c][rng.randrange(len(b.data[f, c])), rng.randrange(2)] = np.nan
            case = dict(block=name, index=i)
            n += 1

            def eq(x, y):
                r = (x == y)
                return bool(r)
            try:
                if not eq(b, b):
                    fails.append(_f("C14", "C14.reflexive", name, "a block does not compare equal to itself", case, seed))
                d = real_build(name, io.BytesIO(real_write(name, b)), b)
                if not eq(b, d) or not eq(d, b):
                    fails.append(_f("C14", "C14.decode", name, "a block does not compare equal to the decode of its own encoding", case, seed))
            except Exception as e:
                fails.append(_f("C14", "C14.exception", name, f"comparison raised {e!r}", case, seed))
                continue
            # history: d has just been compared (and encoded); edited in place without changing its size it must differ
            try:
                from harness import edits
                n += 1
                desc = edits.edit_in_place(name, d, rng, size_preserving=True)
                if desc and encode(name, d)[0] != encode(name, b)[0] and (eq(b, d) or eq(d, b)):
                    fails.append(_f("C14", "C14.differs", name, f"a block edited in place after a comparison ({desc[:120]}) still compares equal to its former twin",
                                    dict(block=name, index=i, variation="in-place edit after comparison"), seed))
            except Exception as e:
                fails.append(_f("C14", "C14.exception", name, f"comparison after an in-place edit raised {e!r}", dict(block=name, index=i, variation="in-place edit after comparison"), seed))
            for desc, c in _vary(name, rng, b):
                n += 1
                if isinstance(c, tuple):            # a pair of variations to be compared with each other
                    try:
                        x, y = c
                        if encode(name, x)[0] != encode(name, y)[0] and (eq(x, y) or eq(y, x)):
                            fails.append(_f("C14", "C14.differs", name, f"blocks that differ ({desc}) compare equal", dict(block=name, index=i, variation=desc), seed))
                    except EncodeError:
                        pass
                    except Exception as e:
                        fails.append(_f("C14", "C14.exception", name, f"comparison of blocks that differ ({desc}) raised {e!r}", dict(block=name, index=i, variation=desc), seed))
                    continue
                try:
                    if encode(name, c)[0] == encode(name, b)[0]:
                        continue        # the variation did not change the content after all
                    if eq(b, c) or eq(c, b):
                        fails.append(_f("C14", "C14.differs", name, f"blocks that differ ({desc}) compare equal", dict(block=name, index=i, variation=desc), seed))
                except Exception as e:
                    fails.append(_f("C14", "C14.exception", name, f"comparison of blocks that differ ({desc}) raised {e!r}", dict(block=name, index=i, variation=desc), seed))
            if len(fails) > 20:
                break
    # whole files: equal exactly when version, slot count and block lists are
    import os, shutil, tempfile
    from basictdf import Tdf
    d = tempfile.mkdtemp(prefix="verif_c14_")
    try:
        for i in range(6 if tier == "quick" else 40):
            rng = random.Random(f"{seed}:c14file:{i}")
            names = rng.sample(["Events", "EMG", "OpticalSetup", "Data3D", "ForceTorque3D", "PlatformsData", "PlatformsCalibration", "Calibration"], rng.randint(0, 3))
            blocks = [gen.BLOCK_GEN[nm](rng) for nm in names]
            if any(nm == "Calibration" and int(b.format) == 2 for nm, b in zip(names, blocks)):
                continue
            pa, pb, pc = (os.path.join(d, f"{x}{i}.tdf") for x in "abc")
            for p in (pa, pb):
                Tdf.new(p)
                with Tdf(p).allow_write() as t:
                    for b in blocks:
                        t.add_block(b)
            n += 1
            case = dict(files=names, index=i)

            def feq(p1, p2):
                with Tdf(p1) as x, Tdf(p2) as y:        # comparison is used on open files (as upstream's own tests do)
                    return bool(x == y)
            try:
                if not feq(pa, pb) or not feq(pa, pa):
                    fails.append(_f("C14", "C14.file_equal", "Tdf", "two files holding the same blocks compare unequal", case, seed))
                Tdf.new(pc)
                with Tdf(pc).allow_write() as t:
                    for b in blocks[:-1]:
                        t.add_block(b)
                    if blocks:
                        for desc, v in _vary(names[-1], rng, blocks[-1])[:1]:
                            t.add_block(v)
                if blocks and (feq(pa, pc) or feq(pc, pa)):
                    fails.append(_f("C14", "C14.file_differs", "Tdf", f"files whose last block differs compare equal", case, seed))
                if blocks:
                    os.remove(pc)
                    Tdf.new(pc)
                    with Tdf(pc).allow_write() as t:
                        for b in blocks[:-1]:
                            t.add_block(b)
                    if feq(pa, pc) or feq(pc, pa):
                        fails.append(_f("C14", "C14.file_differs", "Tdf", "files with different numbers of blocks compare equal", case, seed))
            except Exception as e:
                fails.append(_f("C14", "C14.exception", "Tdf", f"file comparison raised {e!r}", case, seed))
            # the same blocks stored in another order: another list of blocks
            if len(blocks) >= 2:
                try:
                    pe = os.path.join(d, f"e{i}.tdf")
                    Tdf.new(pe)
                    with Tdf(pe).allow_write() as t:
                        for b in blocks[1:] + blocks[:1]:
                            t.add_block(b)
                    n += 1
                    if feq(pa, pe) or feq(pe, pa):
                        fails.append(_f("C14", "C14.file_differs", "Tdf", "files holding the same blocks in a different order compare equal", dict(files=names, index=i, variation="block order"), seed))
                    os.remove(pe)
                except Exception as e:
                    fails.append(_f("C14", "C14.exception", "Tdf", f"comparison of files with reordered blocks raised {e!r}", case, seed))
            # the same blocks in a file with another number of table slots: a different file
            try:
                from harness.container_checks import make_file
                pd = os.path.join(d, f"d{i}.tdf")
                make_file(pd, rng.choice([10, 12, 16]), [], rng)
                with Tdf(pd).allow_write() as t:
                    for b in blocks:
                        t.add_block(b)
                n += 1
                if feq(pa, pd) or feq(pd, pa):
                    fails.append(_f("C14", "C14.file_differs", "Tdf", "files holding the same blocks in tables of different length compare equal", dict(files=names, index=i, variation="slot count"), seed))
                os.remove(pd)
            except Exception as e:
                fails.append(_f("C14", "C14.exception", "Tdf", f"comparison of files with different slot counts raised {e!r}", case, seed))
            for p in (pa, pb, pc):
                if os.path.exists(p):
                    os.remove(p)
    finally:
        shutil.rmtree(d, ignore_errors=True)
    return dict(what="equality vs independent content comparison on generated pairs (real code)", cases=n, label="bounded",
                bound=f"{reps} blocks per type x (self, decode, each single-field variation)"), fails


def run_c15(seed, tier, root=None): return check_c15(seed, tier)
def run_c14(seed, tier, root=None): return check_c14(seed, tier)
