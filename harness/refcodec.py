"""Independent, layout-driven reference encoder (concrete mode of spec/layouts.py) and abstract views of real objects.

Used for: replay of refuted obligations on the real code, the bounded stand-ins, and the BTS-capture clauses.
Nothing here calls the library's writers, readers, nBytes or _segments: bytes are produced with ``struct`` from
the abstract view of an object, so agreement with the library is evidence, not tautology.
"""
import math
import struct
from types import SimpleNamespace as NS

import numpy as np

from spec.layouts import LAYOUTS

_FMT = {"i2": "<h", "u2": "<H", "i4": "<i", "u4": "<I", "f4": "<f", "f8": "<d"}
_NP = {"i2": "<i2", "u2": "<u2", "i4": "<i4", "u4": "<u4", "f4": "<f4", "f8": "<f8"}


class EncodeError(Exception):
    """the abstract value is outside the layout's domain (string too long / not cp1252 / integer out of range)"""


def _flat(seq):
    return np.asarray(seq).reshape(-1)


class ConcE:
    """concrete emitter: bytes + don't-care mask (True = the byte is don't-care on read)"""

    def __init__(self):
        self.out = bytearray()
        self.dc = bytearray()

    def _emit(self, b, dc=False):
        self.out += b
        self.dc += (b"\x01" if dc else b"\x00") * len(b)

    def raw(self, b):
        self._emit(bytes(b))

    def _int(self, kind, x):
        try:
            xi = int(x)
            if isinstance(x, float) or (hasattr(x, "dtype") and np.asarray(x).dtype.kind == "f"):
                if xi != x:
                    raise EncodeError(f"non-integral value {x!r} in integer field {kind}")
            self._emit(struct.pack(_FMT[kind], xi))
        except (struct.error, OverflowError, ValueError, TypeError) as e:
            raise EncodeError(f"{kind} field cannot hold {x!r}: {e}")

    def i2(self, x): self._int("i2", x)
    def u2(self, x): self._int("u2", x)
    def i4(self, x): self._int("i4", x)
    def u4(self, x): self._int("u4", x)

    def f4(self, x):
        self._emit(np.asarray(x, dtype="<f4").tobytes() if not isinstance(x, (int, float)) else struct.pack("<f", _f32(x)))

    def f8(self, x):
        self._emit(struct.pack("<d", float(x)))

    def _many(self, kind, n, seq):
        a = _flat(seq)
        if len(a) != n:
            raise EncodeError(f"{kind}[{n}] field given {len(a)} items")
        if kind in ("f4", "f8"):
            self._emit(a.astype(_NP[kind]).tobytes())
        else:
            for x in a:
                self._int(kind, x)

    def i2s(self, n, seq): self._many("i2", n, seq)
    def u2s(self, n, seq): self._many("u2", n, seq)
    def i4s(self, n, seq): self._many("i4", n, seq)
    def u4s(self, n, seq): self._many("u4", n, seq)
    def f4s(self, n, seq): self._many("f4", n, seq)
    def f8s(self, n, seq): self._many("f8", n, seq)

    def str(self, width, s):
        try:
            b = s.encode("cp1252")
        except UnicodeEncodeError as e:
            raise EncodeError(f"text not cp1252: {e}")
        if "\x00" in s:
            raise EncodeError("text contains NUL")
        if len(b) + 1 > width:
            raise EncodeError(f"text of {len(b)} bytes does not fit a {width}-byte field")
        self._emit(b + b"\x00")
        self._emit(b"\x00" * (width - len(b) - 1), dc=True)

    def date(self, d):
        self._int("i4", int(d.timestamp()) if hasattr(d, "timestamp") else d)

    def pad(self, n):
        self._emit(b"\x00" * n, dc=True)

    def zeros(self, n):
        if n < 0:
            raise EncodeError("more items than the record has slots")
        self._emit(b"\x00" * n)

    def fold(self, seq, fn):
        for x in seq:
            fn(x, self)

    def sub(self, name, x):
        LAYOUTS[name](view(name, x), self)

    def when(self, cond, fn):
        if cond:
            fn(self)


def _f32(x):
    return struct.unpack("<f", struct.pack("<f", x))[0] if not (math.isinf(x) or math.isnan(x)) or True else x


def encode(name, obj):
    """reference encoding of a real library object under layout ``name`` -> (bytes, dontcare_mask)"""
    E = ConcE()
    LAYOUTS[name](view(name, obj), E)
    return bytes(E.out), bytes(E.dc)


# --------------------------------------------------------------------------- abstract views of real objects
class _Rows:
    """word-array view: rows(start, n) and row(f) of a (N, w) or (N,) array"""

    def __init__(self, a):
        self.a = np.asarray(a)

    def rows(self, start, n):
        return self.a[start:start + n]

    def row(self, f):
        return self.a[f]


def runs_of(first_component):
    """maximal runs of non-NaN entries -- the property's definition of 'present', computed independently"""
    out, start = [], None
    col = np.asarray(first_component, dtype="f8").reshape(-1)
    for f, x in enumerate(col):
        if not math.isnan(x):
            if start is None:
                start = f
        elif start is not None:
            out.append((start, f - start))
            start = None
    if start is not None:
        out.append((start, len(col) - start))
    return [NS(start=s, len=n, frames=range(s, s + n)) for s, n in out]


def _first_col(a):
    a = np.asarray(a)
    return a if a.ndim == 1 else a.reshape(len(a), -1)[:, 0]


def _ev(x):
    return x.value if hasattr(x, "value") and not isinstance(x, (int, np.integer)) else int(x)


def view(name, o):
    V = _VIEWS[name]
    return V(o)


def _track(o, lead):
    r = runs_of(_first_col(lead))
    return dict(nruns=len(r), runs=r)


def _v_marker(o):
    return NS(label=o.label, data=_Rows(o.data), **_track(o, o.data))


def _v_emgtrack(o):
    return NS(label=o.label, data=_Rows(o.data), **_track(o, o.data))


def _v_fttrack(o):
    return NS(label=o.label, application_point=_Rows(o.application_point), force=_Rows(o.force),
              torque=_Rows(o.torque), **_track(o, o.application_point))


def _v_platdata(o):
    return NS(application_point=_Rows(o.application_point), force=_Rows(o.force), torque=_Rows(o.torque),
              **_track(o, o.application_point))


def _v_data3d(o):
    has_links = _ev(o.format) in (1, 3)
    links = list(o.links) if (has_links and hasattr(o, "links")) else []
    return NS(nFrames=o.nFrames, frequency=o.frequency, startTime=o.startTime, nTracks=len(o._tracks),
              volume=o.volume, rotationMatrix=o.rotationMatrix, translationVector=o.translationVector,
              flag=_ev(o.flag), has_links=has_links, nLinks=len(links),
              links=[NS(track1=l[0], track2=l[1]) for l in links], tracks=list(o._tracks))


def _v_emg(o):
    return NS(nSignals=len(o._signals), frequency=o.frequency, startTime=o.startTime, nSamples=o.nSamples,
              emgMap=list(o._emgMap), signals=list(o._signals))


def _v_ft3d(o):
    return NS(nTracks=len(o._tracks), frequency=o.frequency, startTime=o.startTime, nFrames=o.nFrames,
              volume=o.volume, rotationMatrix=o.rotationMatrix, translationVector=o.translationVector,
              tracks=list(o._tracks))


def _v_platsdata(o):
    return NS(nPlatforms=len(o._platforms), frequency=o.frequency, start_time=o.start_time, n_frames=o.n_frames,
              platMap=list(o._plat_map), platforms=list(o._platforms))


def _v_platinfo(o):
    return NS(label=o.label, size=o.size, position=o.position)


def _v_platscal(o):
    return NS(nPlatforms=len(o._platforms), platformMap=list(o._platformMap), platforms=list(o._platforms))


def _v_pck(o):
    d = o.data
    nF, nC = d.shape
    return NS(cameras=range(nC), frames=range(nF),
              count=lambda f, c: 0 if d[f, c] is None else len(d[f, c]),
              points=lambda f, c: np.zeros(0, "<f4") if d[f, c] is None else d[f, c])


def _v_data2d(o):
    return NS(nCams=o.nCams, nFrames=o.nFrames, frequency=o.frequency, startTime=o.startTime, flags=_ev(o.flags),
              camMap=list(o._camMap), pck=o._data)


def _v_viewport(o):
    return NS(origin=o.origin, size=o.size)


def _v_seelab(o):
    return NS(rotation_matrix=o.rotation_matrix, translation_vector=o.translation_vector, focus=o.focus,
              optical_center=o.optical_center, radial_distortion=o.radial_distortion, decentering=o.decentering,
              thin_prism=o.thin_prism, view_port=o.view_port)


def _trim0(a):
    """coefficients without trailing +0.0 slots (a record stores 70 slots, unused ones are zero bytes)"""
    a = _flat(a).astype("<f8")
    raw = a.view("<u8")
    n = len(a)
    while n > 0 and raw[n - 1] == 0:
        n -= 1
    return a[:n]


def _v_btscam(o):
    return NS(rotation_matrix=o.rotation_matrix, translation_vector=o.translation_vector, focus=o.focus,
              optical_center=o.optical_center, x_distortion_coefficients=_trim0(o.x_distortion_coefficients),
              y_distortion_coefficients=_trim0(o.y_distortion_coefficients), nx=len(_trim0(o.x_distortion_coefficients)),
              ny=len(_trim0(o.y_distortion_coefficients)), view_port=o.view_port)


def _v_calibration(o):
    fmt = int(o.format)
    return NS(nCams=len(o.cam_data), distorsion_model=int(o.distorsion_model),
              calibration_volume_size=o.calibration_volume_size,
              calibration_volume_rotation_matrix=o.calibration_volume_rotation_matrix,
              calibration_volume_translation_vector=o.calibration_volume_translation_vector,
              cameras_calibration_map=o.cameras_calibration_map, cam_data=list(o.cam_data),
              is_seelab=fmt == 1, is_bts=fmt == 2)


def _v_optchan(o):
    return NS(logical_camera_index=o.logical_camera_index, lens_name=o.lens_name, camera_type=o.camera_type,
              camera_name=o.camera_name, camera_viewport=o.camera_viewport)


def _v_optsetup(o):
    return NS(nChannels=len(o.channels), channels=list(o.channels))


def _v_event(o):
    return NS(label=o.label, type=_ev(o.type), nValues=len(o.values), values=o.values)


def _v_events(o):
    return NS(nEvents=len(o.events), start_time=o.start_time, events=list(o.events))


def _v_entry(o):
    return NS(type=_ev(o.type), format=o.format, offset=o.offset, size=o.size, creation_date=o.creation_date,
              last_modification_date=o.last_modification_date, last_access_date=o.last_access_date, comment=o.comment)


def _v_header(o):
    return o


_VIEWS = {
    "MarkerTrack": _v_marker, "EMGTrack": _v_emgtrack, "ForceTorqueTrack": _v_fttrack, "PlatformData": _v_platdata,
    "Data3D": _v_data3d, "EMG": _v_emg, "ForceTorque3D": _v_ft3d, "PlatformsData": _v_platsdata,
    "PlatformInfo": _v_platinfo, "PlatformsCalibration": _v_platscal, "Data2DPCK": _v_pck, "Data2D": _v_data2d,
    "Viewport": _v_viewport, "SeelabCamera": _v_seelab, "BTSCamera": _v_btscam, "Calibration": _v_calibration,
    "OpticalChannel": _v_optchan, "OpticalSetup": _v_optsetup, "Event": _v_event, "Events": _v_events,
    "Entry": _v_entry, "Header": _v_header,
}
