"""Bounded suites over the real code (executable contracts on generated inputs).  Used as replay for refuted
obligations and as the labelled bounded stand-in; every failure carries a deterministic recipe that regenerates the input."""
import io
import random
import time
import warnings

import numpy as np

from harness import codec_checks as cc
from harness import gen


def make(recipe):
    """regenerate the object of a recipe"""
    kind, layout, seed, idx = recipe["kind"], recipe["layout"], recipe["seed"], recipe["index"]
    rng = random.Random(f"{seed}:{layout}:{idx}")
    if kind == "block":
        return gen.BLOCK_GEN[layout](rng), rng
    if kind == "item":
        return gen.ITEM_GEN[layout](rng), rng
    if kind == "track":
        n, which = recipe["n"], recipe["mask"]
        return gen.TRACK_GEN[layout](rng, n, gen.mask(rng, n, which)), rng
    if kind == "large":
        return gen.large(layout, seed), rng
    if kind == "trackblock":
        n, masks = recipe["n"], recipe["masks"]
        return gen.TRACK_BLOCK[layout](rng, len(masks), n, masks=[gen.mask(rng, n, w) for w in masks]), rng
    raise KeyError(kind)


BLOCK_OF_TRACK = {"MarkerTrack": "Data3D", "EMGTrack": "EMG", "ForceTorqueTrack": "ForceTorque3D", "PlatformData": "PlatformsData"}


def codec_cases(seed, tier, layouts=None):
    nblock = 25 if tier == "quick" else 150
    nitem = 15 if tier == "quick" else 80
    nmask = 5 if tier == "quick" else 9
    for name in gen.BLOCK_GEN:
        if layouts and name not in layouts:
            continue
        for i in range(nblock):
            yield dict(kind="block", layout=name, seed=seed, index=i)
    for name in gen.ITEM_GEN:
        if layouts and name not in layouts:
            continue
        for i in range(nitem):
            yield dict(kind="item", layout=name, seed=seed, index=i)
    for name in gen.LARGE:
        if layouts and name not in layouts:
            continue
        yield dict(kind="large", layout=name, seed=seed, index=0)
    for name in gen.TRACK_GEN:
        if layouts and name not in layouts and BLOCK_OF_TRACK[name] not in layouts:
            continue
        for n in range(1, nmask + 1):
            for which in range(2 ** n):
                yield dict(kind="track", layout=name, seed=seed, index=which, n=n, mask=which)
        rng = random.Random(f"{seed}:tb:{name}")
        for i in range(10 if tier == "quick" else 60):
            n = rng.randint(1, 8)
            yield dict(kind="trackblock", layout=name, seed=seed, index=i, n=n, masks=[rng.choice([0, rng.getrandbits(n), rng.getrandbits(n), (1 << n) - 1]) for _ in range(rng.randint(1, 4))])


def layout_of_recipe(r):
    return BLOCK_OF_TRACK[r["layout"]] if r["kind"] == "trackblock" else r["layout"]


def check_roundtrip(name, o, rng):
    """C01 on the real code only: decode(real encode(o)) has the same content, and re-encoding gives the same bytes"""
    fails = []
    try:
        b1 = cc.real_write(name, o)
    except Exception as e:
        return [cc._fail("RT.write", name, f"_write raised {e!r} on a valid object", cc.describe(name, o))]
    s = io.BytesIO(b1 + b"\xA5" * 5)
    try:
        r = cc.real_build(name, s, o)
    except Exception as e:
        return [cc._fail("RT.decode", name, f"decoding the bytes just written raised {e!r}", cc.describe(name, o))]
    if s.tell() != len(b1):
        fails.append(cc._fail("RT.consumed", name, f"decoding consumed {s.tell()} of the {len(b1)} bytes written", cc.describe(name, o)))
    try:
        if cc.encode(name, r)[0] != cc.encode(name, o)[0]:
            fails.append(cc._fail("RT.content", name, "decoded content differs from the original (independent canonical encodings differ)", cc.describe(name, o)))
    except Exception as e:
        fails.append(cc._fail("RT.content", name, f"decoded object is malformed: {e!r}", cc.describe(name, o)))
    try:
        b2 = cc.real_write(name, r)
        if b2 != b1:
            fails.append(cc._fail("RT.reencode", name, f"re-encoding the decoded block gives different bytes ({len(b2)} vs {len(b1)})", cc.describe(name, o)))
    except Exception as e:
        fails.append(cc._fail("RT.reencode", name, f"re-encoding the decoded block raised {e!r}", cc.describe(name, o)))
    try:
        if cc.real_nbytes(name, o) != len(b1):
            fails.append(cc._fail("RT.size", name, f"nBytes = {cc.real_nbytes(name, o)} but {len(b1)} bytes were written", cc.describe(name, o)))
        if cc.real_nbytes(name, r) != len(b1):
            fails.append(cc._fail("RT.size", name, f"decoded object reports nBytes = {cc.real_nbytes(name, r)}, {len(b1)} bytes were written", cc.describe(name, o)))
    except Exception as e:
        fails.append(cc._fail("RT.size", name, f"nBytes raised {e!r}", cc.describe(name, o)))
    return fails


def check_history(name, o, rng):
    """what is computed from an object depends on its current content only: an object that was encoded, sized and compared
    before, then edited in place, is held to the same contracts as a fresh one (real bytes vs reference layout of the
    CURRENT content, round trip, gaps)"""
    from harness import edits
    try:
        cc.real_write(name, o)
        cc.real_nbytes(name, o)
        o == o
        repr(o)
    except Exception:
        return []           # reported by the plain checks
    fails = []
    # refused requests leave the object as valid as it was
    try:
        before = cc.encode(name, o)[0]
        calls = edits.refused_operations(name, o, rng)
    except Exception:
        calls = []
    if any("(accepted)" in c for c in calls):
        return []           # a request this suite expected to be refused was accepted: C15 / C16 / C19 judge that, not this clause
    if calls:
        fl = cc.check_write(name, o) + check_roundtrip(name, o, rng)
        try:
            if cc.encode(name, o)[0] != before:
                fl.append(cc._fail("RT.content", name, "the content of the object changed", cc.describe(name, o)))
        except Exception as e:
            fl.append(cc._fail("RT.content", name, f"the object is no longer well-formed: {e!r}", cc.describe(name, o)))
        for f in fl:
            f["message"] = f"after refused requests {calls}: " + f["message"]
        fails += fl
        if fails:
            return fails
    for sp in (False, True):
        try:
            desc = edits.edit_in_place(name, o, rng, size_preserving=sp)
        except Exception as e:
            return fails
        if desc is None:
            continue
        fl = cc.check_write(name, o) + check_roundtrip(name, o, rng)
        if name in gen.TRACK_GEN:
            fl += cc.check_gaps(name, o, rng)
        for f in fl:
            f["message"] = f"after an in-place edit of an object that had been encoded before ({desc[:160]}): " + f["message"]
        fails += fl
        if fails:
            break
        try:
            cc.real_nbytes(name, o)
            o == o
        except Exception:
            pass
    return fails


def check_gaps_block(name, o, rng):
    """C05 'for any number of tracks per block': after encoding and decoding a whole block every track has its gaps where
    they were and its present frames with their stored words (a decoder that leaves the stream misplaced after one track
    shows in the next)"""
    try:
        b1 = cc.real_write(name, o)
        r = cc.real_build(name, io.BytesIO(b1 + b"\xA5" * 7), o)
    except Exception as e:
        return [cc._fail("C05.block", name, f"encode/decode of a block with several tracks raised {e!r}", cc.describe(name, o))]
    try:
        if cc.encode(name, r)[0] != cc.encode(name, o)[0]:
            return [cc._fail("C05.block", name, "after encode/decode of the whole block the tracks' runs / present values differ from what was stored", cc.describe(name, o))]
    except Exception as e:
        return [cc._fail("C05.block", name, f"decoded block is malformed: {e!r}", cc.describe(name, o))]
    return []


def check_size_nonfinite(name, o, rng):
    """C02's size clause on blocks holding +-inf in a leading component: declared size == bytes written"""
    from harness import edits
    try:
        if not edits.poison_leading_component(name, o, rng):
            return []
        b = cc.real_write(name, o)
        nb = cc.real_nbytes(name, o)
    except Exception as e:
        return []
    if nb != len(b):
        return [cc._fail("RT.size", name, f"with an infinite leading component in a frame: nBytes = {nb} but {len(b)} bytes were written", cc.describe(name, o))]
    return []


def check_size_overlong_label(name, o, rng):
    """a label that fills its field completely (no room for the terminator) is refused; a tree that accepts it must still
    report the size it writes"""
    target = o
    for attr in ("_tracks", "_signals", "_platforms", "events", "channels"):
        lst = getattr(o, attr, None)
        if lst:
            target = lst[0]
            break
    field, width = next(((f, w) for f, w in (("label", 256), ("camera_name", 32)) if isinstance(getattr(target, f, None), str)), (None, None))
    if field is None:
        return []
    try:
        setattr(target, field, "L" * width)
        b = cc.real_write(name, o)
        nb = cc.real_nbytes(name, o)
    except Exception:
        return []
    if nb != len(b):
        return [cc._fail("RT.size", name, f"a {width}-character {field} was accepted: nBytes = {nb} but {len(b)} bytes were written", cc.describe(name, o))]
    return []


CHECKS = {
    "write": lambda name, o, rng: cc.check_write(name, o),
    "build": lambda name, o, rng: cc.check_build(name, o, rng),
    "roundtrip": check_roundtrip,
    "gaps": lambda name, o, rng: cc.check_gaps(name, o, rng) if name in gen.TRACK_GEN else [],
    "history": check_history,
    "gaps_block": check_gaps_block,
    "size_nonfinite": check_size_nonfinite,
    "size_overlong": check_size_overlong_label,
}


def run_recipe(recipe, checks):
    warnings.simplefilter("ignore")
    o, rng = make(recipe)
    name = layout_of_recipe(recipe)
    fails = []
    for c in checks:
        if c == "gaps" and recipe["kind"] != "track":
            continue
        if c == "gaps_block" and recipe["kind"] != "trackblock":
            continue
        if recipe["kind"] == "large" and c not in ("write", "roundtrip", "size_nonfinite", "size_overlong"):
            continue            # the per-frame writers make each encoding of these cost about a second
        if c == "size_overlong":
            o, _ = make(recipe)
        if c == "size_nonfinite":
            o, _ = make(recipe)
            rng = random.Random(f"{recipe['seed']}:{recipe['layout']}:{recipe['index']}:{recipe.get('n')}:{recipe.get('mask')}:inf")
        if c == "history":      # own object and own randomness: independent of which other checks ran before (replay)
            o, _ = make(recipe)
            rng = random.Random(f"{recipe['seed']}:{recipe['layout']}:{recipe['index']}:{recipe.get('n')}:{recipe.get('mask')}:history")
        for f in CHECKS[c](name, o, rng):
            f["recipe"] = recipe
            f["check"] = c
            fails.append(f)
    return fails


def run_codec_suite(seed, tier, checks, layouts=None, kinds=None, budget_s=None):
    t0 = time.time()
    n = 0
    fails = []
    distinct = set()
    for r in codec_cases(seed, tier, layouts):
        n += 1
        distinct.add((r["kind"], r["layout"], r.get("n"), r.get("mask"), r["index"]))
        for f in run_recipe(r, checks):
            if kinds is None or any(f["kind"].startswith(k) for k in kinds):
                fails.append(f)
        if len(fails) >= 5 or (budget_s and time.time() - t0 > budget_s):
            break
    return dict(cases=n, distinct=len(distinct), wall=round(time.time() - t0, 2)), fails


def run_btsstring_suite(seed, tier):
    rng = random.Random(f"{seed}:bts")
    fails, n = [], 0
    widths = [1, 2, 5, 32, 256] if tier == "quick" else [1, 2, 3, 5, 8, 31, 32, 33, 255, 256, 257]
    for size in widths:
        fixed = ["", "a", "a" * (size - 1), "a" * size, "a" * (size + 1), "€", "€" * max(size - 1, 0), "€" * size, "Ā", "a\x00b", "\x81", "é", "\x00",
                 "\udc80", "a\udcff", "\ud800", "\udfff", "Â°", "Ã©", "â‚¬", "Â°" * max((size - 1) // 2, 0),
                 "e\u0301", "Cafe\u0301", "\u212a", "\u212b", "\u037e", "A\u030a", "\ufb01", "\uff21", "ı\u0307",
                 "z" * (size - 2) + "€" if size >= 2 else "€"]
        for s in fixed:
            n += 1
            fails += cc.check_btsstring(size, s)
        for _ in range(40 if tier == "quick" else 400):
            L = rng.choice([0, 1, size - 2, size - 1, size, size + 1, rng.randint(0, size + 3)])
            s = "".join(rng.choice(gen.CP1252 + ["Ā", "中", "\x81", "\x00", "\udc80", "\udcfe", "\ud83d"] if rng.random() < 0.15 else gen.CP1252) for _ in range(max(L, 0)))
            n += 1
            fails += cc.check_btsstring(size, s)
    # every cp1252 character and every code point class at every position of a small field
    for c in gen.CP1252 + ["\x81", "\x8d", "\x8f", "\x90", "\x9d", "Ā", "\U0001F600", "\udc80", "\udcff", "\ud800"]:
        for pos in range(3):
            s = "a" * pos + c + "b" * (2 - pos)
            n += 1
            fails += cc.check_btsstring(4, s) + cc.check_btsstring(3, s)
    hi = [c for c in gen.CP1252 if ord(c) >= 0x80]
    for a in hi:
        for b in (hi if tier != "quick" else hi[::7] + ["°", "©", "¬", "€"]):
            n += 1
            fails += cc.check_btsstring(8, a + b) + (cc.check_btsstring(8, "x" + a + b + "\u201a") if tier != "quick" else [])
    for f in fails:
        f["recipe"] = dict(kind="btsstring", size=f["repro"]["size"], string=f["repro"]["string"])
    return dict(cases=n, distinct=n, wall=0), fails
