"""In-place edits of valid objects (the object stays valid).  Used by the history clauses of the bounded suites: what the
library computes from an object (bytes, size, equality) is a function of its current content, not of what was computed
from it earlier -- an object that was encoded / sized / compared, then edited in place, behaves like a fresh object with
the same content."""
import numpy as np

from harness import gen

TRACK_FIELDS = {"MarkerTrack": [("data", 3)], "EMGTrack": [("data", 0)],
                "ForceTorqueTrack": [("application_point", 3), ("force", 3), ("torque", 3)],
                "PlatformData": [("application_point", 2), ("force", 3), ("torque", 0)]}
TRACKS_OF = {"Data3D": ("_tracks", "MarkerTrack"), "EMG": ("_signals", "EMGTrack"), "ForceTorque3D": ("_tracks", "ForceTorqueTrack"),
             "PlatformsData": ("_platforms", "PlatformData")}


def _store(obj, attr, new):
    """in place when the array allows it (decoded arrays may be read-only views of the bytes read), else by assignment"""
    a = getattr(obj, attr)
    if isinstance(a, np.ndarray) and a.flags.writeable and a.shape == np.shape(new):
        a[...] = new
    else:
        setattr(obj, attr, np.array(new, dtype=getattr(a, "dtype", None)))


def other_label(s):
    """a different string of the same length (same encoded size); '' -> 'x' when there is nothing to change"""
    if not s:
        return "x"
    c = "y" if s[0] != "y" else "z"
    return c + s[1:]


def edit_track(name, t, rng, keep_mask=False):
    fs = TRACK_FIELDS[name]
    n = getattr(t, fs[0][0]).shape[0]
    if keep_mask:
        a0 = getattr(t, fs[0][0])
        m = [not bool(np.isnan(a0[f]).all()) for f in range(n)]
    else:
        m = gen.mask(rng, n)
    for f, w in fs:
        _store(t, f, gen.gapped(rng, n, w, m))
    return "samples rewritten in place" if keep_mask else "samples and gaps rewritten in place (presence " + "".join("x" if p else "." for p in m) + ")"


def edit_in_place(name, o, rng, size_preserving=False):
    """edits ``o`` in place; returns a description, or None if there was nothing to edit"""
    done = []
    if name in TRACK_FIELDS:
        return edit_track(name, o, rng, keep_mask=size_preserving)
    if name in TRACKS_OF:
        attr, tname = TRACKS_OF[name]
        ts = getattr(o, attr)
        for i, t in enumerate(ts):
            if rng.random() < 0.8:
                done.append(f"track {i}: " + edit_track(tname, t, rng, keep_mask=size_preserving))
            if hasattr(t, "label") and rng.random() < 0.5:
                t.label = other_label(t.label) if len(t.label) else t.label
                done.append(f"track {i}: label changed (same length)")
        for f in ("startTime", "start_time"):
            if hasattr(o, f) and rng.random() < 0.5:
                setattr(o, f, 0.5 if getattr(o, f) != 0.5 else 1.5)
                done.append("start time changed")
    elif name == "PlatformsCalibration":
        for i, p in enumerate(o._platforms):
            if len(p.label):
                p.label = other_label(p.label)
            _store(p, "size", gen.f32_words(rng, 2))
            _store(p, "position", gen.f32_words(rng, 12).reshape(4, 3))
            done.append(f"platform {i}: label, size and position rewritten in place")
    elif name == "Data2D":
        d = o.data
        for f in range(d.shape[0]):
            for c in range(d.shape[1]):
                if rng.random() < 0.6:
                    if size_preserving and d[f, c] is not None:
                        d[f, c] = gen.f32_words(rng, d[f, c].size).reshape(d[f, c].shape).copy()
                    elif not size_preserving:
                        k = rng.choice([None, 1, 2, 3])
                        d[f, c] = None if k is None else gen.f32_words(rng, 2 * k).reshape(k, 2).copy()
                    done.append(f"cell ({f},{c}) rewritten")
        o.startTime = 0.5 if o.startTime != 0.5 else 1.5
        done.append("start time changed")
    elif name == "Calibration":
        _store(o, "calibration_volume_size", gen.f32_words(rng, 3))
        done.append("volume rewritten in place")
        for i, cam in enumerate(o.cam_data):
            _store(cam, "translation_vector", gen.f64_words(rng, 3))
            done.append(f"camera {i}: translation rewritten in place")
    elif name == "OpticalSetup":
        for i, ch in enumerate(o.channels):
            if len(ch.camera_name):
                ch.camera_name = other_label(ch.camera_name)
                done.append(f"channel {i}: camera name changed (same length)")
            ch.logical_camera_index = 3 if ch.logical_camera_index != 3 else 4
            done.append(f"channel {i}: logical index changed")
    elif name == "Events":
        for i, e in enumerate(o.events):
            if len(e.values) and isinstance(e.values, np.ndarray):
                _store(e, "values", gen.f32_words(rng, len(e.values)))
                done.append(f"event {i}: values rewritten in place")
            if len(e.label):
                e.label = other_label(e.label)
                done.append(f"event {i}: label changed (same length)")
        o.start_time = 0.5 if o.start_time != 0.5 else 1.5
        done.append("start time changed")
    elif name == "PlatformInfo":
        _store(o, "size", gen.f32_words(rng, 2))
        _store(o, "position", gen.f32_words(rng, 12).reshape(4, 3))
        done.append("size and position rewritten in place")
    elif name in ("SeelabCamera", "BTSCamera"):
        _store(o, "translation_vector", gen.f64_words(rng, 3))
        done.append("translation rewritten in place")
    elif name == "Event":
        if len(o.values) and isinstance(o.values, np.ndarray):
            _store(o, "values", gen.f32_words(rng, len(o.values)))
            done.append("values rewritten in place")
        if len(o.label):
            o.label = other_label(o.label)
            done.append("label changed (same length)")
    elif name == "OpticalChannel":
        if len(o.camera_name):
            o.camera_name = other_label(o.camera_name)
            done.append("camera name changed (same length)")
    return "; ".join(done) if done else None


def refused_operations(name, o, rng):
    """calls public mutators with arguments they must refuse (exceptions swallowed, as a caller would); returns the
    list of calls made.  The object must be left as valid as it was."""
    import numpy as np
    done = []

    def attempt(desc, fn):
        try:
            fn()
            done.append(desc + " (accepted)")
        except Exception as e:
            done.append(desc + f" (refused: {type(e).__name__})")
    junk = [None, 5, "track", object()]
    if name in ("Data3D", "ForceTorque3D"):
        mk = gen.marker_track if name == "Data3D" else gen.ft_track
        attempt("add_track(track one frame too long)", lambda: o.add_track(mk(rng, o.nFrames + 1)))
        attempt("add_track(non-track)", lambda: o.add_track(rng.choice(junk)))
        attempt("tracks = [valid, too long]", lambda: setattr(o, "tracks", [mk(rng, o.nFrames), mk(rng, o.nFrames + 2)]))
        attempt("tracks = [valid, non-track]", lambda: setattr(o, "tracks", list(o._tracks) + [mk(rng, o.nFrames), rng.choice(junk)]))
    elif name == "EMG":
        attempt("addSignal(signal one sample too long)", lambda: o.addSignal(gen.emg_track(rng, o.nSamples + 1)))
        attempt("addSignal(signal too long, explicit channel)", lambda: o.addSignal(gen.emg_track(rng, o.nSamples + 1), channel=77))
        attempt("addSignal(non-signal)", lambda: o.addSignal(rng.choice(junk)))
        if len(o._emgMap):
            attempt("addSignal(valid, channel in use)", lambda: o.addSignal(gen.emg_track(rng, o.nSamples), channel=int(o._emgMap[0])))
        attempt("removeSignal(absent label)", lambda: o.removeSignal("no such label \x7f"))
    elif name == "PlatformsData":
        attempt("add_platform(non-platform)", lambda: o.add_platform(rng.choice(junk)))
        if len(o._plat_map):
            attempt("add_platform(valid, channel in use)", lambda: o.add_platform(gen.plat_data(rng, o.n_frames), int(o._plat_map[0])))
        attempt("platforms = [valid, non-platform]", lambda: setattr(o, "platforms", [gen.plat_data(rng, o.n_frames), rng.choice(junk)]))
    elif name == "PlatformsCalibration":
        attempt("add_platform(non-platform)", lambda: o.add_platform(rng.choice(junk)))
        if len(o._platformMap):
            attempt("add_platform(valid, channel in use)", lambda: o.add_platform(gen.plat_info(rng), int(o._platformMap[0])))
        attempt("remove_platform(out of range)", lambda: o.remove_platform(len(o._platforms) + 3))
    return done


def poison_leading_component(name, o, rng):
    """put +-inf into the leading component of one present frame of every track (the library treats a non-finite leading
    component as a missing frame -- a documented limitation, DESIGN 3.4; the size the block reports and the bytes it
    writes must still agree).  Returns True if something was changed."""
    if name in TRACK_FIELDS:
        tracks, tname = [o], name
    elif name in TRACKS_OF:
        tracks, tname = list(getattr(o, TRACKS_OF[name][0])), TRACKS_OF[name][1]
    else:
        return False
    done = False
    for t in tracks:
        a = getattr(t, TRACK_FIELDS[tname][0][0])
        lead = a if a.ndim == 1 else a[:, 0]
        present = [f for f in range(a.shape[0]) if not np.isnan(lead[f])]
        if present and a.flags.writeable:
            f = rng.choice(present)
            if a.ndim == 1:
                a[f] = rng.choice([np.inf, -np.inf])
            else:
                a[f, 0] = rng.choice([np.inf, -np.inf])
            done = True
    return done
