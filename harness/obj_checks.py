"""Executable contracts for the object-level properties C14 C15 C16 C18 C19 C20, evaluated on the real code (bounded).
Every failure carries a recipe dict(module='harness.obj_checks', prop=..., case=..., seed=...) that `replay` re-runs."""
import copy
import io
import itertools
import random
import time
import warnings

import numpy as np

from harness import gen
from harness.codec_checks import real_write, real_build, _fail
from harness.refcodec import encode


def _f(prop, kind, layout, msg, case, seed):
    d = _fail(kind, layout, msg, dict(case=case))
    d["recipe"] = dict(module="harness.obj_checks", kind="obj", prop=prop, case=case, seed=seed)
    return d


def _snapshot(name, b):
    """content fingerprint of a block: its independent canonical encoding + item identities"""
    try:
        return encode(name, b)[0]
    except Exception as e:
        return ("unencodable", repr(e))


def _mutables(o, seen=None, path="", out=None, depth=0):
    """(path, object) for every mutable object reachable from o (lists, dicts, sets, arrays, instances)"""
    import enum, datetime
    seen = {} if seen is None else seen
    out = [] if out is None else out
    if depth > 8 or id(o) in seen or o is None or isinstance(o, (str, bytes, int, float, complex, bool, enum.Enum, datetime.datetime, type, np.generic, np.dtype)):
        return out
    seen[id(o)] = o
    if isinstance(o, np.ndarray):
        out.append((path, o))
        if o.dtype == object:
            for idx, x in np.ndenumerate(o):
                _mutables(x, seen, f"{path}{list(idx)}", out, depth + 1)
        return out
    if isinstance(o, (list, tuple)):
        if isinstance(o, list):
            out.append((path, o))
        for i, x in enumerate(o):
            _mutables(x, seen, f"{path}[{i}]", out, depth + 1)
        return out
    if isinstance(o, dict):
        out.append((path, o))
        for k, x in o.items():
            _mutables(x, seen, f"{path}[{k!r}]", out, depth + 1)
        return out
    if hasattr(o, "__dict__"):
        out.append((path, o))
        for k, x in vars(o).items():
            _mutables(x, seen, f"{path}.{k}", out, depth + 1)
    return out


def _shared_mutables(a, b):
    """paths of mutable objects reachable from both a and b (identity, or overlapping array memory)"""
    ma, mb = _mutables(a), _mutables(b)
    frozen = lambda x: isinstance(x, np.ndarray) and not x.flags.writeable          # a shared read-only array cannot carry an edit across
    ids = {id(x): p for p, x in ma if not frozen(x)}
    out = [f"{ids[id(y)]} is {q}" for q, y in mb if id(y) in ids]
    arr_a = [(p, x) for p, x in ma if isinstance(x, np.ndarray) and x.size and not frozen(x)]
    for q, y in mb:
        if isinstance(y, np.ndarray) and y.size and not frozen(y):
            for p, x in arr_a:
                if x is not y and np.shares_memory(x, y):
                    out.append(f"{p} shares memory with {q}")
    return out


# ------------------------------------------------------------------------------------------------ C18
LOOKUP = {"Data3D": ("_tracks", gen.marker_track), "ForceTorque3D": ("_tracks", gen.ft_track), "EMG": ("_signals", gen.emg_track), "Events": ("events", None)}


def _lookup_block(name, rng, labels):
    n = 4
    if name == "Data3D":
        b = gen.data3d(rng, 0, n)
        for l in labels:
            b.add_track(gen.marker_track(rng, n, lab=l))
    elif name == "ForceTorque3D":
        b = gen.ft3d(rng, 0, n)
        for l in labels:
            b.add_track(gen.ft_track(rng, n, lab=l))
    elif name == "EMG":
        b = gen.emg(rng, 0, n)
        chans = rng.sample(range(0, 3 * len(labels) + 3), len(labels))          # any order: storage order is what counts
        for l, ch in zip(labels, chans):
            b.addSignal(gen.emg_track(rng, n, lab=l), channel=ch)
    else:
        from basictdf.tdfEvents import TemporalEventsData, Event, EventsDataType
        b = TemporalEventsData()
        for i, l in enumerate(labels):
            b.events.append(Event(l, [] if i % 2 == 0 else [1.0, 2.0][: 1 + (i % 3 == 0)], EventsDataType.eventSequence))
    return b


LABEL_SETS = [[], ["a"], ["a", "b", "a"], ["", "x", ""], ["Ab", "ab", " ab", "ab "], ["k", "k", "k", "k"], ["€", "e", "€"], ["x", "y", "z", "x", "y"],
              ["C7\x00", "C7", "C7\x00\x00"], ["\x00", ""]]


def _foreign_items():
    import random as _r
    rr = _r.Random(7)
    return {"Data3D": gen.marker_track(rr, 4, lab="a"), "ForceTorque3D": gen.ft_track(rr, 4, lab="a"), "EMG": gen.emg_track(rr, 4, lab="a"), "Events": gen.event(rr)}


_FOREIGN_ITEMS = {}


def _coherence(name, b, labels, case, seed, when=""):
    if not _FOREIGN_ITEMS:
        _FOREIGN_ITEMS.update(_foreign_items())
    """the C18 clauses on one block as it is now: len / iteration / positions / labels / membership / key types / frame"""
    fails = []
    items = list(getattr(b, LOOKUP[name][0]))
    before = _snapshot(name, b)
    w = (when + ": ") if when else ""
    try:
        it = list(iter(b))
        if len(b) != len(it) or len(it) != len(items) or any(x is not y for x, y in zip(it, items)):
            fails.append(_f("C18", "C18.len_iter", name, f"{w}len {len(b)} / iteration {len(it)} / items {len(items)} disagree", case, seed))
        for i in range(-len(items) - 2, len(items) + 2):
            try:
                r = b[i]
                ok = -len(items) <= i < len(items) and r is it[i] and r is items[i]
            except IndexError:
                ok = not (-len(items) <= i < len(items))
            if not ok:
                fails.append(_f("C18", "C18.index", name, f"{w}b[{i}] is not the {i}-th iterated item / wrong IndexError behaviour", case, seed))
        for key in sorted(set(labels + [x.label for x in items] + ["nope", "A", "a ", ""])):
            first = next((x for x in it if x.label == key), None)
            try:
                r = b[key]
                ok = first is not None and r is first
                found = True
            except KeyError:
                ok = first is None
                found = False
            if not ok:
                fails.append(_f("C18", "C18.label", name, f"{w}b[{key!r}] does not return the first item with that label / wrong KeyError behaviour", case, seed))
            if (key in b) != found:
                fails.append(_f("C18", "C18.contains", name, f"{w}{key!r} in b is {key in b} but lookup {'succeeds' if found else 'raises KeyError'}", case, seed))
        for bad in (1.5, None, (1,), b"a", [0], slice(None), slice(0, 1)):
            try:
                b[bad]
                fails.append(_f("C18", "C18.keytype", name, f"{w}b[{bad!r}] did not raise TypeError", case, seed))
            except TypeError:
                pass
            except Exception as e:
                fails.append(_f("C18", "C18.keytype", name, f"{w}b[{bad!r}] raised {e!r} instead of TypeError", case, seed))
        # membership supports labels and item objects only: every other key type (positions included) is refused
        foreign = [x for nm2, x in _FOREIGN_ITEMS.items() if nm2 != name]
        for bad in [0, 1, -1, len(items), 1.5, None, (1,), b"a", True] + foreign:
            try:
                r = bad in b
                fails.append(_f("C18", "C18.keytype", name, f"{w}`{bad!r} in b` returned {r} instead of raising TypeError", case, seed))
            except TypeError:
                pass
            except Exception as e:
                fails.append(_f("C18", "C18.keytype", name, f"{w}`{bad!r} in b` raised {e!r} instead of TypeError", case, seed))
        for x in items:
            if x not in b:
                fails.append(_f("C18", "C18.contains_item", name, f"{w}an item of the block is reported as not contained", case, seed))
    except Exception as e:
        fails.append(_f("C18", "C18.exception", name, f"{w}unexpected {e!r}", case, seed))
    if _snapshot(name, b) != before or list(getattr(b, LOOKUP[name][0])) != items:
        fails.append(_f("C18", "C18.frame", name, f"{w}a lookup operation changed the block", case, seed))
    return fails


def check_c18(seed, tier):
    fails, n = [], 0
    for name in LOOKUP:
        for li, labels in enumerate(LABEL_SETS):
            rng = random.Random(f"{seed}:c18:{name}:{li}")
            b = _lookup_block(name, rng, labels)
            case = dict(block=name, labels=labels)
            n += 1
            fails += _coherence(name, b, labels, case, seed)
            # a twin with equal content (lookups on it return ITS items, whatever was looked up on the first block before)
            n += 1
            twin = copy.deepcopy(b)
            fails += _coherence(name, twin, labels, dict(case, phase="equal twin"), seed, "on an equal copy of a block that was queried before")
            fails += _coherence(name, b, labels, dict(case, phase="after twin"), seed, "after an equal copy was queried")
            # the block changes through its public interface between queries: answers follow the current content
            lst = getattr(b, LOOKUP[name][0])
            for step in ("refused", "relabel", "drop", "refused", "empty", "refill"):
                n += 1
                try:
                    if step == "refused":
                        # requests the block has to refuse (wrong length, junk, channel in use) leave the lookups coherent
                        from harness import edits
                        if name in ("Data3D", "ForceTorque3D", "EMG"):
                            edits.refused_operations(name, b, rng)
                    elif step == "relabel" and len(lst):
                        k = rng.randrange(len(lst))
                        lst[k].label = lst[k].label + "'" if len(lst[k].label) < 200 else "q"
                    elif step == "drop" and len(lst):
                        if name == "EMG":
                            b.removeSignal(lst[0].label)
                        elif name == "Events":
                            del b.events[0]
                        else:
                            b.tracks = list(lst)[1:]
                    elif step == "empty":
                        if name == "EMG":
                            for lab in [x.label for x in list(lst)]:
                                if lab in b:
                                    b.removeSignal(lab)
                        elif name == "Events":
                            b.events = []
                        else:
                            b.tracks = []
                    elif step == "refill":
                        for l in labels[:2]:
                            if name == "Data3D":
                                b.add_track(gen.marker_track(rng, 4, lab=l))
                            elif name == "ForceTorque3D":
                                b.add_track(gen.ft_track(rng, 4, lab=l))
                            elif name == "EMG":
                                b.addSignal(gen.emg_track(rng, 4, lab=l))
                            else:
                                b.events.append(gen.event(rng))
                except Exception as e:
                    fails.append(_f("C18", "C18.exception", name, f"{step} through the public interface raised {e!r}", dict(case, phase=step), seed))
                    break
                lst = getattr(b, LOOKUP[name][0])
                fails += _coherence(name, b, labels, dict(case, phase=step), seed, f"after '{step}' through the public interface")
            if len(fails) > 12:
                return dict(what="lookup coherence on real blocks", cases=n, label="bounded", bound="stopped early"), fails
    return dict(what="lookup coherence on real blocks", cases=n, label="bounded",
                bound="4 block types x 8 label multisets x all keys; on equal twins; after relabel / drop / empty / refill through the public interface; EMG channels in any order"), fails


# ------------------------------------------------------------------------------------------------ C16
def check_c16(seed, tier):
    from basictdf.tdfData3D import Data3D, MarkerTrack
    from basictdf.tdfForce3D import ForceTorque3D, ForceTorqueTrack
    from basictdf.tdfEMG import EMG, EMGTrack
    fails, n = [], 0
    rng = random.Random(f"{seed}:c16")
    mk = {"Data3D": (lambda nf, k: gen.data3d(rng, k, nf), lambda nf: gen.marker_track(rng, nf), "add_track", "_tracks"),
          "ForceTorque3D": (lambda nf, k: gen.ft3d(rng, k, nf), lambda nf: gen.ft_track(rng, nf), "add_track", "_tracks"),
          "EMG": (lambda nf, k: gen.emg(rng, k, nf), lambda nf: gen.emg_track(rng, nf), "addSignal", "_signals")}
    junk = [None, 5, "track", object(), [1, 2], np.zeros((3, 3)), 0, "", [], {}, False]
    for name, (mkb, mkt, add, fld) in mk.items():
        for nf in (0, 1, 3):
            for k in (0, 2):
                # single add: right length, wrong length, wrong kind
                for what in ["ok", "short", "long", "regrown", "regrown_first", "regrown_last", "matrix"] + list(range(len(junk))) + ["othertrack"]:
                    try:
                        b = mkb(nf, k)
                    except Exception as e:
                        # a new block of nf frames with k valid tracks of nf frames: nothing to refuse (tracks left over from
                        # an earlier block of another length would explain it)
                        fails.append(_f("C16", "C16.fresh_block", name, f"building a block of {nf} frames with {k} tracks of {nf} frames raised {e!r}", dict(block=name, frames=nf, prior=k, add="(setup)"), seed))
                        if len(fails) > 12:
                            return dict(what="track-length / all-or-nothing contracts on real blocks", cases=n, label="bounded", bound="stopped early"), fails
                        continue
                    foreign = [t for t in getattr(b, fld) if getattr(t, "nFrames", getattr(t, "nSamples", nf)) != nf]
                    if len(getattr(b, fld)) != k or foreign:
                        fails.append(_f("C16", "C16.fresh_block", name, f"a new block of {nf} frames given {k} tracks holds {len(getattr(b, fld))} tracks ({len(foreign)} of another length)", dict(block=name, frames=nf, prior=k, add="(setup)"), seed))
                        continue
                    twin = copy.deepcopy(b)
                    case = dict(block=name, frames=nf, prior=k, add=str(what))
                    n += 1
                    if what == "ok":
                        x = mkt(nf)
                    elif what == "short":
                        x = mkt(nf + 1) if nf <= 1 else mkt(nf - 1)
                    elif what == "long":
                        x = mkt(nf + 2)
                    elif what == "matrix":
                        # as many stored numbers as a valid track has, arranged with another number of frames (rows)
                        if nf < 2:
                            continue
                        x = mkt(nf)
                        for attr, val in vars(x).items():
                            if isinstance(val, np.ndarray):
                                setattr(x, attr, np.ascontiguousarray(val.reshape((1,) + val.shape)) if val.ndim == 1 else np.ascontiguousarray(val.reshape(1, -1)))
                    elif what == "regrown":
                        # built with the right length, then its arrays replaced by longer ones (attribute assignment): the
                        # track now HAS another number of frames, whatever it had when it was constructed
                        x = mkt(nf)
                        longer = mkt(nf + 3)
                        for attr, val in vars(longer).items():
                            if isinstance(val, np.ndarray) and hasattr(x, attr):
                                setattr(x, attr, val)
                    elif what in ("regrown_first", "regrown_last"):
                        # only one of the track's arrays replaced by a longer one: if the track now counts another number of
                        # frames than the block it must be refused, whatever its other arrays say
                        x = mkt(nf)
                        longer = mkt(nf + 3)
                        arrs = [a_ for a_, v_ in vars(longer).items() if isinstance(v_, np.ndarray) and hasattr(x, a_)]
                        if len(arrs) < 2:
                            continue
                        a_ = arrs[0] if what == "regrown_first" else arrs[-1]
                        setattr(x, a_, getattr(longer, a_))
                        cnt = getattr(x, "nFrames", None) if hasattr(x, "nFrames") else getattr(x, "nSamples", None)
                        if cnt == nf:
                            continue        # the track still counts nf frames: whether it is valid is not C16's business
                    elif what == "othertrack":
                        x = gen.emg_track(rng, nf) if name != "EMG" else gen.marker_track(rng, nf)
                    else:
                        x = junk[what]
                    old_items = list(getattr(b, fld))
                    try:
                        getattr(b, add)(x)
                        accepted = True
                    except Exception:
                        accepted = False
                    now = list(getattr(b, fld))
                    if what == "ok":
                        if not accepted or now != old_items + [x]:
                            fails.append(_f("C16", "C16.add_valid", name, "a valid track was refused or not appended as the last item", case, seed))
                    else:
                        if accepted:
                            fails.append(_f("C16", "C16.add_invalid", name, f"an invalid item ({what}) was accepted", case, seed))
                        if now != old_items or any(a is not c for a, c in zip(now, old_items)) or _snapshot(name, b) != _snapshot(name, twin):
                            fails.append(_f("C16", "C16.add_frame", name, f"a refused add ({what}) changed the block", case, seed))
                        if name == "EMG" and len(b._emgMap) != len(b._signals):
                            fails.append(_f("C16", "C16.add_frame", name, f"a refused add ({what}) changed the channel map", case, seed))
                if name == "EMG":
                    continue
                # list assignment: every position of one invalid element
                for L in (0, 1, 3):
                    for badpos in [None] + list(range(L)):
                        for badkind in (["short", "junk", "othertrack", "twin", "None", "zero", "empty str", "empty list", "empty dict"] if badpos is not None else ["-"]):
                            b = mkb(nf, k)
                            old_list = getattr(b, fld)
                            old_items = list(old_list)
                            vals = [mkt(nf) for _ in range(L)]
                            if badkind == "twin":
                                # a wrong-length look-alike of a track the block already holds: same label, the same constant
                                # samples, another number of frames (anything comparing tracks loosely takes it for the original)
                                if not old_items or nf == 0:
                                    continue
                                t0 = old_items[0]
                                arrs = [a for a in vars(t0).values() if isinstance(a, np.ndarray)]
                                for a in arrs:
                                    a[...] = 1.5
                                rows = nf + 1 if nf == 1 else 1
                                twin_t = type(t0)(t0.label, *[np.full((rows,) + a.shape[1:], 1.5, dtype=a.dtype) for a in arrs])
                                vals[badpos] = twin_t
                            elif badkind in ("None", "zero", "empty str", "empty list", "empty dict"):
                                vals[badpos] = {"None": None, "zero": 0, "empty str": "", "empty list": [], "empty dict": {}}[badkind]
                            elif badpos is not None:
                                vals[badpos] = mkt(nf + 1) if badkind == "short" else ("junk" if badkind == "junk" else gen.emg_track(rng, nf))
                            case = dict(block=name, frames=nf, prior=k, assign=L, badpos=badpos, badkind=badkind)
                            n += 1
                            for container in (list, tuple, iter):
                                b2 = b if container is list else None
                                if b2 is None:
                                    continue
                                try:
                                    b.tracks = container(vals)
                                    ok = True
                                except Exception:
                                    ok = False
                                now = list(b.tracks)
                                if badpos is None:
                                    if not ok or len(now) != L or any(a is not c for a, c in zip(now, vals)):
                                        fails.append(_f("C16", "C16.assign_valid", name, "assigning a valid list did not install exactly that list", case, seed))
                                else:
                                    if ok:
                                        fails.append(_f("C16", "C16.assign_invalid", name, "a list with an invalid element was accepted", case, seed))
                                    if len(now) != len(old_items) or any(a is not c for a, c in zip(now, old_items)):
                                        fails.append(_f("C16", "C16.assign_rollback", name, f"list assignment is not all-or-nothing: block now holds {len(now)} tracks "
                                                        f"(previously {len(old_items)})", case, seed))
    # what is assigned is built from the block's own list: exactly that selection is installed
    for name in ("Data3D", "ForceTorque3D"):
        mkb, mkt, add, fld = mk[name]
        for how in ("the list itself", "reversed", "generator over it", "filter of it", "slice of it", "chain with a new track"):
            b = mkb(3, 3)
            cur = list(getattr(b, fld))
            extra = mkt(3)
            n += 1
            import itertools as _it
            val, want = {"the list itself": (b.tracks, cur), "reversed": (reversed(b.tracks), cur[::-1]), "generator over it": ((t for t in b.tracks), cur),
                         "filter of it": (filter(lambda t: t is not cur[1], b.tracks), [cur[0], cur[2]]), "slice of it": (b.tracks[1:], cur[1:]),
                         "chain with a new track": (_it.chain(b.tracks, [extra]), cur + [extra])}[how]
            case = dict(block=name, assign=how)
            try:
                b.tracks = val
                now = list(b.tracks)
                if len(now) != len(want) or any(a is not c for a, c in zip(now, want)):
                    fails.append(_f("C16", "C16.assign_valid", name, f"assigning {how} did not install exactly that selection ({len(want)} tracks expected, {len(now)} held)", case, seed))
            except Exception as e:
                fails.append(_f("C16", "C16.assign_valid", name, f"assigning {how} raised {e!r}", case, seed))
    # two blocks of different length: what one is given never ends up, unchecked, in the other
    for name in ("Data3D", "ForceTorque3D"):
        mkb, mkt, add, fld = mk[name]
        n += 1
        a, b = mkb(5, 0), mkb(3, 0)
        case = dict(block=name, scenario="b.tracks = a.tracks (both empty), then a.add_track")
        try:
            b.tracks = a.tracks
            a.add_track(mkt(5))
            bad = [t for t in b.tracks if t.nFrames != b.nFrames]
            if bad:
                fails.append(_f("C16", "C16.add_invalid", name, f"a block with nFrames={b.nFrames} holds a {bad[0].nFrames}-frame track after an add to the block whose (empty) list it was assigned", case, seed))
            lst = [mkt(3)]
            b.tracks = lst
            lst.append(mkt(7))
            try:
                b.tracks = lst
            except Exception:
                pass
            bad = [t for t in b.tracks if t.nFrames != b.nFrames]
            if bad:
                fails.append(_f("C16", "C16.assign_rollback", name, "after a refused re-assignment of a list that had grown a wrong-length track the block holds that track", case, seed))
        except Exception as e:
            fails.append(_f("C16", "C16.exception", name, f"unexpected {e!r}", case, seed))
    # what is assigned is not even a list: a single track, a number, an iterator that fails half-way
    for name in ("Data3D", "ForceTorque3D"):
        mkb, mkt, add, fld = mk[name]
        for nf in (1, 3):
            for what in ("single track", "int", "failing generator", "None"):
                b = mkb(nf, 2)
                old_items = list(getattr(b, fld))
                n += 1

                def failing():
                    yield mkt(nf)
                    raise RuntimeError("source of tracks failed")
                val = {"single track": mkt(nf), "int": 5, "failing generator": failing(), "None": None}[what]
                case = dict(block=name, frames=nf, assign=what)
                try:
                    b.tracks = val
                    fails.append(_f("C16", "C16.assign_invalid", name, f"assigning {what} to tracks did not raise", case, seed))
                except Exception:
                    pass
                now = list(b.tracks)
                if len(now) != len(old_items) or any(a is not c for a, c in zip(now, old_items)):
                    fails.append(_f("C16", "C16.assign_rollback", name, f"a refused assignment ({what}) did not leave the previous tracks in place ({len(old_items)} before, {len(now)} after)", case, seed))
    return dict(what="add-track / assign-track-list contracts on real blocks", cases=n, label="bounded", bound="3 block types x frame counts x every position of one invalid element; non-lists; wrong-shaped arrays"), fails


# ------------------------------------------------------------------------------------------------ C20
def check_c20(seed, tier):
    fails, n = [], 0
    rng = random.Random(f"{seed}:c20")
    from basictdf.tdfOpticalSystem import OpticalSetupBlock
    from basictdf.tdfEvents import TemporalEventsData, Event
    from basictdf.tdfEMG import EMG
    from basictdf.tdfData3D import Data3D
    from basictdf.tdfForce3D import ForceTorque3D
    from basictdf.tdfForcePlatformsCalibration import ForcePlatformsCalibrationDataBlock
    from basictdf.tdfForcePlatformsData import ForcePlatformsDataBlock
    g3 = lambda: (np.zeros(3, "<f4"), np.eye(3, dtype="<f4"), np.zeros(3, "<f4"))
    makers = {
        "OpticalSetup": (lambda: OpticalSetupBlock(), lambda b: b.channels.append(gen.opt_channel(rng)), lambda b: len(b.channels)),
        "Events": (lambda: TemporalEventsData(), lambda b: b.events.append(gen.event(rng)), lambda b: len(b.events)),
        "EMG": (lambda: EMG(100, 4), lambda b: b.addSignal(gen.emg_track(rng, 4)), lambda b: (len(b._signals), len(b._emgMap))),
        "Data3D": (lambda: Data3D(100, 4, *g3()), lambda b: b.add_track(gen.marker_track(rng, 4)), lambda b: len(b._tracks)),
        "ForceTorque3D": (lambda: ForceTorque3D(100, 4, *g3()), lambda b: b.add_track(gen.ft_track(rng, 4)), lambda b: len(b._tracks)),
        "PlatformsCalibration": (lambda: ForcePlatformsCalibrationDataBlock(), lambda b: b.add_platform(gen.plat_info(rng)), lambda b: (len(b._platforms), len(b._platformMap))),
        "PlatformsData": (lambda: ForcePlatformsDataBlock(0.0, 100, 4), lambda b: b.add_platform(gen.plat_data(rng, 4)), lambda b: (len(b._platforms), len(b._plat_map))),
    }
    for name, (mk, mutate, size) in makers.items():
        case = dict(block=name, scenario="construct twice, mutate the first")
        n += 1
        a = mk()
        empty = size(a)
        mutate(a)
        mutate(a)
        b = mk()
        if size(b) != empty:
            fails.append(_f("C20", "C20.fresh_empty", name, f"a block constructed without items is not empty after an earlier instance was filled (size {size(b)})", case, seed))
        before = _snapshot(name, b)
        mutate(a)
        if _snapshot(name, b) != before:
            fails.append(_f("C20", "C20.shared", name, "mutating one instance changed another", case, seed))
        c = mk()
        mutate(c)
        sa = size(a)
        mutate(c)
        if size(a) != sa:
            fails.append(_f("C20", "C20.shared", name, "mutating a later instance changed an earlier one", case, seed))
        # decode the same bytes twice
        n += 1
        try:
            raw = real_write(name, a)
            r1 = real_build(name, io.BytesIO(raw), a)
            r2 = real_build(name, io.BytesIO(raw), a)
            s2 = _snapshot(name, r2)
            mutate(r1)
            if _snapshot(name, r2) != s2:
                fails.append(_f("C20", "C20.decode_shared", name, "two decodes of the same bytes are not independent", dict(block=name, scenario="decode twice"), seed))
            d = mk()
            if size(d) != empty:
                fails.append(_f("C20", "C20.fresh_empty", name, "a fresh block is not empty after decoding / mutating others", case, seed))
        except Exception as e:
            fails.append(_f("C20", "C20.exception", name, f"unexpected {e!r}", case, seed))
    # bulk assignment of one block's item list to another block must not make them share state
    for name, attr in (("Data3D", "tracks"), ("ForceTorque3D", "tracks"), ("PlatformsData", "platforms")):
        mk, mutate, size = makers[name]
        n += 1
        a, b = mk(), mk()
        mutate(a)
        mutate(a)
        case = dict(block=name, scenario=f"b.{attr} = a.{attr}; mutate b")
        try:
            setattr(b, attr, getattr(a, attr))
            sa, snap = size(a), _snapshot(name, a)
            mutate(b)
            if size(a) != sa or _snapshot(name, a) != snap:
                fails.append(_f("C20", "C20.shared", name, f"after b.{attr} = a.{attr}, adding an item to b changed a", case, seed))
        except Exception as e:
            fails.append(_f("C20", "C20.exception", name, f"unexpected {e!r}", case, seed))
    # decode-twice on generated blocks of every shape (tracks without any present frame included): no mutable object is
    # reachable from both results, and a deep in-place edit of one leaves the other's content alone
    from harness import edits
    reps = 10 if tier == "quick" else 60
    for name in makers:
        for i in range(reps):
            r_ = random.Random(f"{seed}:c20dec:{name}:{i}")
            n += 1
            case = dict(block=name, scenario="decode twice, edit one in depth", index=i)
            try:
                if name in gen.TRACK_BLOCK.values() or name in ("Data3D", "EMG", "ForceTorque3D", "PlatformsData"):
                    k = r_.randint(1, 3)
                    nfr = 4          # the frame count the item factories of `makers` use
                    masks = [[False] * nfr if r_.random() < 0.4 else gen.mask(r_, nfr) for _ in range(k)]
                    src = {"Data3D": gen.data3d, "EMG": gen.emg, "ForceTorque3D": gen.ft3d, "PlatformsData": gen.plats_data}[name](r_, k, nfr, masks=masks)
                else:
                    src = gen.BLOCK_GEN[name](r_)
                raw = real_write(name, src)
                r1 = real_build(name, io.BytesIO(raw), src)
                r2 = real_build(name, io.BytesIO(raw), src)
                junk = [np.full(sz, 12345.0, dtype="<f4") for sz in (1, 2, 3, 4, 6, 8, 12, 16, 24, 64, 250, 1000) for _ in range(4)]
                del junk                                   # recycled memory now carries 12345.0
                r2 = real_build(name, io.BytesIO(raw), src)
                if _snapshot(name, r1) != _snapshot(name, r2):
                    fails.append(_f("C20", "C20.decode_shared", name, "two decodes of the same bytes differ (the second depends on what an earlier, discarded object left in memory)", case, seed))
                # ... also in what the encoding does not show (frames inside a gap): every array of one decode holds the bytes
                # of its counterpart in the other
                m1 = {p_: a_ for p_, a_ in _mutables(r1) if isinstance(a_, np.ndarray) and a_.dtype != object}
                m2 = {p_: a_ for p_, a_ in _mutables(r2) if isinstance(a_, np.ndarray) and a_.dtype != object}
                diff = [p_ for p_ in m1 if p_ in m2 and (m1[p_].shape != m2[p_].shape or m1[p_].tobytes() != m2[p_].tobytes())]
                if diff or set(m1) != set(m2):
                    fails.append(_f("C20", "C20.decode_shared", name, f"two decodes of the same bytes hold different values in {(diff or sorted(set(m1) ^ set(m2)))[:3]} "
                                    "(the second depends on what an earlier, discarded object left in memory)", case, seed))
                shared = _shared_mutables(r1, r2)
                if shared:
                    fails.append(_f("C20", "C20.decode_shared", name, f"two decodes of the same bytes share mutable state: {shared[:3]}", case, seed))
                if name in LOOKUP:
                    # what a lookup on one decode hands out belongs to that decode (whatever was looked up on the other before)
                    own1, own2 = list(getattr(r1, LOOKUP[name][0])), list(getattr(r2, LOOKUP[name][0]))
                    for x in own1:
                        try:
                            g1 = r1[x.label]
                            g2 = r2[x.label]
                        except Exception as e:
                            fails.append(_f("C20", "C20.exception", name, f"label lookup on a decoded block raised {e!r}", case, seed))
                            break
                        if not any(g1 is y for y in own1) or not any(g2 is y for y in own2):
                            fails.append(_f("C20", "C20.decode_shared", name, f"label lookup {x.label!r} on one decode returned an item of the other decode", case, seed))
                            break
                    shared = _shared_mutables(r1, r2)
                    if shared:
                        fails.append(_f("C20", "C20.decode_shared", name, f"after label lookups two decodes of the same bytes share mutable state: {shared[:3]}", case, seed))
                s2, w2 = _snapshot(name, r2), real_write(name, r2)
                edits.edit_in_place(name, r1, r_)
                mutate_ = makers[name][1]
                mutate_(r1)
                if _snapshot(name, r2) != s2 or real_write(name, r2) != w2:
                    fails.append(_f("C20", "C20.decode_shared", name, "editing one decode of some bytes changed the other decode", case, seed))
                r3 = real_build(name, io.BytesIO(raw), src)
                if _snapshot(name, r3) != s2:
                    fails.append(_f("C20", "C20.decode_shared", name, "a later decode of the same bytes differs after an earlier decode was edited", case, seed))
            except Exception as e:
                fails.append(_f("C20", "C20.exception", name, f"unexpected {e!r}", case, seed))
            if len(fails) > 10:
                break
    # the same block read twice through a file (one context, two contexts, getters): independent objects
    import os, shutil, tempfile
    from basictdf import Tdf
    d = tempfile.mkdtemp(prefix="verif_c20_")
    try:
        p = os.path.join(d, "f.tdf")
        Tdf.new(p)
        r_ = random.Random(f"{seed}:c20file")
        blocks = {"Events": gen.events(r_, 2), "EMG": gen.emg(r_, 2, 4), "Data3D": gen.data3d(r_, 2, 4, masks=[[False] * 4, gen.mask(r_, 4)])}
        with Tdf(p).allow_write() as t:
            for b in blocks.values():
                t.add_block(b)
        for name, blk in blocks.items():
            for how in ("same context, get_block twice", "same context, by type then by index", "two contexts", "no context"):
                n += 1
                case = dict(block=name, scenario="read twice through a file: " + how)
                try:
                    t = Tdf(p)
                    if how == "same context, get_block twice":
                        with t:
                            x, y = t.get_block(blk.type), t.get_block(blk.type)
                    elif how == "same context, by type then by index":
                        with t:
                            idx = [e.type for e in t.entries].index(blk.type)
                            x, y = t.get_block(blk.type), t.get_block(idx)
                    elif how == "two contexts":
                        with t:
                            x = t.get_block(blk.type)
                        with t:
                            y = t.get_block(blk.type)
                    else:
                        x, y = t.get_block(blk.type), t.get_block(blk.type)
                    shared = _shared_mutables(x, y)
                    if x is y or shared:
                        fails.append(_f("C20", "C20.decode_shared", name, f"the same block read twice ({how}) gives objects that share mutable state: {'same object' if x is y else shared[:3]}", case, seed))
                    s2 = _snapshot(name, y)
                    edits.edit_in_place(name, x, r_)
                    makers[name][1](x)
                    if _snapshot(name, y) != s2:
                        fails.append(_f("C20", "C20.decode_shared", name, f"editing a block read from a file changed the second read of it ({how})", case, seed))
                except Exception as e:
                    fails.append(_f("C20", "C20.exception", name, f"unexpected {e!r}", case, seed))
    finally:
        shutil.rmtree(d, ignore_errors=True)
    # two blocks each given its own list through the bulk setter: independent afterwards
    for name, attr in (("Data3D", "tracks"), ("ForceTorque3D", "tracks"), ("PlatformsData", "platforms")):
        mk_, mutate, size = makers[name]
        n += 1
        case = dict(block=name, scenario=f"two blocks, each assigned its own list through .{attr}")
        try:
            a, b = mk_(), mk_()
            donor1, donor2 = mk_(), mk_()
            mutate(donor1); mutate(donor2); mutate(donor2)
            setattr(a, attr, list(getattr(donor1, attr)))
            setattr(b, attr, list(getattr(donor2, attr)))
            if len(getattr(a, attr)) != 1 or len(getattr(b, attr)) != 2:
                fails.append(_f("C20", "C20.shared", name, f"after assigning 1 item to one block and 2 to another they hold {len(getattr(a, attr))} and {len(getattr(b, attr))}", case, seed))
            setattr(a, attr, [])
            if len(getattr(b, attr)) != 2 or size(mk_()) != size(makers[name][0]()) or _shared_mutables(a, b):
                fails.append(_f("C20", "C20.shared", name, "emptying one block through the setter changed another / a fresh block is not empty / the two share state", case, seed))
        except Exception as e:
            fails.append(_f("C20", "C20.exception", name, f"unexpected {e!r}", case, seed))
    # every mutable attribute of two blocks built by the same constructor call is its own object
    for name, (mk_, mutate, size) in makers.items():
        n += 1
        a, b = mk_(), mk_()
        shared = _shared_mutables(a, b)
        if shared:
            fails.append(_f("C20", "C20.shared", name, f"two blocks built by the same constructor call share mutable state: {shared[:3]}", dict(block=name, scenario="construct twice, compare reachable objects"), seed))
        for attr, val in list(vars(a).items()):
            if isinstance(val, list):
                marker = object()
                val.append(marker)
                later = mk_()
                if any(x is marker for x in getattr(b, attr)) or any(x is marker for x in getattr(later, attr)):
                    fails.append(_f("C20", "C20.shared", name, f"appending to .{attr} of one block shows in another / in a block built later", dict(block=name, scenario=f"append to {attr}"), seed))
                del val[-1]
    # construction with an explicit item list: two blocks built from the same list, and the list itself, stay independent of
    # what is done to one of the blocks through its own mutators (the calibration block is the one whose constructor takes items
    # and which has add / remove methods of its own)
    n += 1
    try:
        from basictdf.tdfForcePlatformsCalibration import ForcePlatformsCalibrationDataBlock as _PC
        r_ = random.Random(f"{seed}:c20:explicit")
        given = [gen.plat_info(r_), gen.plat_info(r_)]
        first, second = _PC(platforms=given), _PC(platforms=given)
        s2 = _snapshot("PlatformsCalibration", second)
        first.add_platform(gen.plat_info(r_))
        first.remove_platform(0)
        case = dict(block="PlatformsCalibration", scenario="two blocks built from the same explicit list; one of them edited through add_platform / remove_platform")
        if _snapshot("PlatformsCalibration", second) != s2 or len(second._platforms) != 2:
            fails.append(_f("C20", "C20.shared", "PlatformsCalibration", "editing a block built from an explicit list changed another block built from the same list", case, seed))
        if len(given) != 2:
            fails.append(_f("C20", "C20.shared", "PlatformsCalibration", f"editing a block built from an explicit list changed the caller's list (now {len(given)} items)", case, seed))
        # (the items themselves are the caller's objects in both blocks: that sharing is the caller's; the containers are not)
        if first._platforms is second._platforms or first._platforms is given or first._platformMap is second._platformMap:
            fails.append(_f("C20", "C20.shared", "PlatformsCalibration", "two blocks built from the same explicit list hold one list object", case, seed))
    except Exception as e:
        fails.append(_f("C20", "C20.exception", "PlatformsCalibration", f"explicit-list construction scenario raised {e!r}", dict(block="PlatformsCalibration", scenario="explicit list"), seed))
    # event values
    n += 1
    e1, e2 = Event("a"), Event("b")
    if e1.values is e2.values:
        fails.append(_f("C20", "C20.shared", "Event", "two events built without values share one array", dict(block="Event"), seed))
    return dict(what="independence of separately created / decoded blocks (real code)", cases=n, label="bounded", bound="7 block classes x construct/mutate/decode interleavings; decode-twice with reachability of shared mutable state on generated blocks; 3 block types x 4 ways of reading twice through a file"), fails


# ------------------------------------------------------------------------------------------------ C19
def _shapes():
    out = [()]
    for r in (1, 2, 3):
        out += list(itertools.product(range(0, 5), repeat=r))
    return out


def check_c19(seed, tier):
    from basictdf.tdfData3D import Data3D
    from basictdf.tdfForce3D import ForceTorque3D, ForceTorqueTrack
    from basictdf.tdfCalibrationData import CalibrationDataBlock, SeelabCameraData, BTSCameraData, DistorsionModel
    from basictdf.tdfTypes import CameraViewPort
    from basictdf.tdfOpticalSystem import OpticalChannelData
    from basictdf.tdfEvents import Event, EventsDataType
    warnings.simplefilter("ignore")
    fails, n = [], 0
    rng = random.Random(f"{seed}:c19")
    shapes = _shapes() if tier == "thorough" else [s for s in _shapes() if len(s) <= 2 or rng.random() < 0.15]
    dtypes = ["<f4", "<f8", "<i4"] if tier == "quick" else ["<f4", "<f8", "<i4", "<i2", "<u2", "bool", "object"]
    others = [None, "abc", 3, 2.5, [1.0, 2.0, 3.0], (1.0, 2.0, 3.0), [[1, 0, 0], [0, 1, 0], [0, 0, 1]]]
    good = dict(volume=np.zeros(3, "<f4"), rot=np.eye(3, dtype="<f4"), tr=np.zeros(3, "<f4"))
    vp = lambda: CameraViewPort(np.zeros(2, "<i4"), np.ones(2, "<i4"))

    def values_for(req):
        for sh in shapes:
            for dt in dtypes:
                yield np.zeros(sh, dtype=dt), (tuple(sh) == tuple(req)), f"array{sh}:{dt}"
        for o in others:
            yield o, False, repr(o)[:30]

    def probe(ctor, argname, req, sizecheck=None):
        nonlocal n
        for val, should, desc in values_for(req):
            n += 1
            try:
                obj = ctor(val)
                acc = True
            except Exception:
                acc = False
            case = dict(ctor=ctor.__name__ if hasattr(ctor, "__name__") else str(ctor), arg=argname, value=desc)
            if acc != should:
                fails.append(_f("C19", "C19.accept" if acc else "C19.refuse", argname, f"{argname}: value {desc} was {'accepted' if acc else 'refused'}", case, seed))
            elif acc and sizecheck:
                try:
                    name, o2 = sizecheck(obj)
                    w = real_write(name, o2)
                    if len(w) != o2.nBytes:
                        fails.append(_f("C19", "C19.missized", argname, f"accepted object writes {len(w)} bytes but reports {o2.nBytes}", case, seed))
                except Exception as e:
                    fails.append(_f("C19", "C19.missized", argname, f"accepted object cannot be written: {e!r}", case, seed))

    D = object()
    d3 = lambda v=D, r=D, t=D: Data3D(100, 3, good["volume"] if v is D else v, good["rot"] if r is D else r, good["tr"] if t is D else t)
    ft = lambda v=D, r=D, t=D: ForceTorque3D(100, 3, good["volume"] if v is D else v, good["rot"] if r is D else r, good["tr"] if t is D else t)
    for nm, mkb, lay in (("Data3D", d3, "Data3D"), ("ForceTorque3D", ft, "ForceTorque3D")):
        def c_vol(x, mkb=mkb): return mkb(v=x)
        def c_rot(x, mkb=mkb): return mkb(r=x)
        def c_tr(x, mkb=mkb): return mkb(t=x)
        probe(c_vol, f"{nm}.volume", (3,), lambda o, lay=lay: (lay, o))
        probe(c_rot, f"{nm}.rotationMatrix", (3, 3), lambda o, lay=lay: (lay, o))
        probe(c_tr, f"{nm}.translationVector", (3,), lambda o, lay=lay: (lay, o))

    def cal(v=D, r=D, t=D):
        return CalibrationDataBlock(DistorsionModel.KaliDistorsion, good["volume"] if v is D else v, good["rot"] if r is D else r,
                                    good["tr"] if t is D else t, np.zeros(0, "<i2"), [])
    probe(lambda x: cal(v=x), "Calibration.volume_size", (3,), lambda o: ("Calibration", o))
    probe(lambda x: cal(r=x), "Calibration.rotation_matrix", (3, 3), lambda o: ("Calibration", o))
    probe(lambda x: cal(t=x), "Calibration.translation_vector", (3,), lambda o: ("Calibration", o))
    sl = dict(rotation_matrix=(3, 3), translation_vector=(3,), focus=(2,), optical_center=(2,), radial_distortion=(2,), decentering=(2,), thin_prism=(2,))
    for arg, req in sl.items():
        def mk(x, arg=arg):
            kw = {a: np.zeros(r) for a, r in sl.items()}
            kw[arg] = x
            return SeelabCameraData(view_port=vp(), **kw)
        probe(mk, f"SeelabCameraData.{arg}", req, lambda o: ("SeelabCamera", o))
    # viewports: CameraViewPort(origin, size); coercion from a (2,2) array in three constructors
    for which in ("origin", "size"):
        for val, desc in [(np.zeros(sh, dt), f"array{sh}:{dt}") for sh in shapes for dt in ("<i4", "<f8")] + [(o, repr(o)) for o in
                                                                                                              [None, "ab", 5, 2.5, [1, 2], [1, 2, 3], [1], (1, 2), (1,), (1, 2, 3), [], ()]]:
            n += 1
            should = (isinstance(val, np.ndarray) and val.shape == (2,)) or (isinstance(val, (list, tuple)) and len(val) == 2)
            try:
                v = CameraViewPort(val, [3, 4]) if which == "origin" else CameraViewPort([1, 2], val)
                acc = True
            except Exception:
                acc = False
            case = dict(ctor="CameraViewPort", arg=which, value=desc[:40])
            if acc != should:
                fails.append(_f("C19", "C19.accept" if acc else "C19.refuse", "Viewport", f"CameraViewPort {which}={desc[:40]} was {'accepted' if acc else 'refused'}", case, seed))
            elif acc:
                try:
                    if len(v.write()) != 16:
                        fails.append(_f("C19", "C19.missized", "Viewport", f"accepted viewport writes {len(v.write())} bytes, not 16", case, seed))
                except Exception as e:
                    fails.append(_f("C19", "C19.missized", "Viewport", f"accepted viewport cannot be written: {e!r}", case, seed))
    for cname, mk in (("OpticalChannelData", lambda x: OpticalChannelData(0, "l", "t", "n", x)),
                      ("SeelabCameraData", lambda x: SeelabCameraData(**{a: np.zeros(r) for a, r in sl.items()}, view_port=x)),
                      ("BTSCameraData", lambda x: BTSCameraData(np.eye(3), np.zeros(3), np.zeros(2), np.zeros(2), np.zeros(70), np.zeros(70), x))):
        for val, desc in [(vp(), "CameraViewPort")] + [(np.zeros(sh, "<i4"), f"array{sh}") for sh in shapes if len(sh) <= 2] + [(o, repr(o)) for o in [None, "ab", 5, [[1, 2], [3, 4]], ((1, 2), (3, 4))]]:
            n += 1
            should = desc == "CameraViewPort" or (isinstance(val, np.ndarray) and val.shape == (2, 2))
            try:
                mk(val)
                acc = True
            except Exception:
                acc = False
            if acc != should:
                fails.append(_f("C19", "C19.accept" if acc else "C19.refuse", cname, f"{cname} viewport={desc[:40]} was {'accepted' if acc else 'refused'}",
                                dict(ctor=cname, arg="viewport", value=desc[:40]), seed))
    # coupled arrays
    cshapes = [(4, 3), (4,), (3,), (4, 2), (5, 3), (), (4, 3, 1), (0, 3), (2, 2, 3), (1, 3), (0,), (0, 0), (0, 4), (4, 0), (2, 0, 3)]       # zero-size arrays have a shape too
    for sa, sb, sc in itertools.product(cshapes, repeat=3):
        if tier == "quick" and rng.random() < 0.6 and not (sa == sb == sc):
            continue
        n += 1
        should = sa == sb == sc and len(sa) == 2 and sa[1] == 3
        try:
            t = ForceTorqueTrack("x", np.zeros(sa, "<f4"), np.zeros(sb, "<f4"), np.zeros(sc, "<f4"))
            acc = True
        except Exception:
            acc = False
        case = dict(ctor="ForceTorqueTrack", shapes=[sa, sb, sc])
        if acc != should:
            fails.append(_f("C19", "C19.accept" if acc else "C19.refuse", "ForceTorqueTrack", f"coupled arrays of shapes {sa},{sb},{sc} were {'accepted' if acc else 'refused'}", case, seed))
        elif acc and sa[0] >= 1:
            try:
                w = real_write("ForceTorqueTrack", t)
                if len(w) != t.nBytes:
                    fails.append(_f("C19", "C19.missized", "ForceTorqueTrack", f"accepted track writes {len(w)} bytes but reports {t.nBytes}", case, seed))
            except Exception as e:
                fails.append(_f("C19", "C19.missized", "ForceTorqueTrack", f"accepted track cannot be written: {e!r}", case, seed))
    # events
    for val, iterable, count in [(None, False, 0), (5, False, 0), (2.5, False, 0), (np.array(1.0), False, 0), ([], True, 0), ((), True, 0), ([1.0], True, 1), ([1.0, 2.0], True, 2),
                                 (np.zeros(0), True, 0), (np.zeros(1, "<f4"), True, 1), (np.zeros(3), True, 3), (iter([]), True, None), ([[1.0, 2.0]], True, 2), (np.zeros((1, 2)), True, 2),
                                 (range(1), True, 1), (range(3), True, 3)]:
        for ty in EventsDataType:
            n += 1
            should = iterable and count is not None and not (ty == EventsDataType.singleEvent and count > 1) and not (isinstance(val, (list, np.ndarray)) and np.ndim(val) > 1)
            if count is None:
                continue
            try:
                e = Event("e", val, ty)
                acc = True
            except Exception:
                acc = False
            case = dict(ctor="Event", value=repr(val)[:40], type=ty.name)
            if acc != should:
                fails.append(_f("C19", "C19.accept" if acc else "C19.refuse", "Event", f"Event values={val!r} type={ty.name} was {'accepted' if acc else 'refused'}", case, seed))
            elif acc:
                w = real_write("Event", e)
                if len(w) != e.nBytes:
                    fails.append(_f("C19", "C19.missized", "Event", f"accepted event writes {len(w)} bytes but reports {e.nBytes}", case, seed))
    return dict(what="constructor acceptance predicates on real constructors", cases=n, label="bounded", bound="shapes of rank 0-3 with extents 0..4, listed dtypes and non-array kinds"), fails[:200]


def run(prop, seed, tier, repo_root=None):
    fn = {"C18": check_c18, "C16": check_c16, "C20": check_c20, "C19": check_c19, "C15": None, "C14": None}[prop]
    if fn is None:
        from harness import obj_checks2
        fn = {"C15": obj_checks2.check_c15, "C14": obj_checks2.check_c14}[prop]
    return fn(seed, tier)


def run_c18(seed, tier, root=None): return check_c18(seed, tier)
def run_c16(seed, tier, root=None): return check_c16(seed, tier)
def run_c20(seed, tier, root=None): return check_c20(seed, tier)
def run_c19(seed, tier, root=None): return check_c19(seed, tier)


def replay(recipe, repo_root):
    st, fails = run(recipe["prop"], recipe["seed"], "thorough")
    return [f for f in fails if f["repro"].get("case") == recipe["case"]] or fails[:1]
