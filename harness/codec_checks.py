"""Executable form of the codec contracts W_T / S_T / B_T (DESIGN.md 6) evaluated on the REAL code with concrete inputs.

Roles: (1) replay of refuted deductive obligations (find a failing input), (2) bounded stand-in, labelled bounded,
(3) concrete cross-check of the layout tables.  Every function returns a list of failure dicts (empty = held).
"""
import io
import math
import random
import struct
import traceback

import numpy as np

from harness import gen, refcodec
from harness.refcodec import encode, EncodeError


def _fmt_code(o):
    f = getattr(o, "format", None)
    return None if f is None else (f.value if hasattr(f, "value") and not isinstance(f, int) else int(f))


def _cls(name):
    import importlib
    from spec.layouts import CLASS_OF
    mod, cls = CLASS_OF[name].rsplit(".", 1)
    return getattr(importlib.import_module(mod), cls)


def real_write(name, o):
    b = io.BytesIO()
    if name == "PlatformData":
        from basictdf.tdfForcePlatformsData import ForcePlatformBlockFormat
        o._write(b, ForcePlatformBlockFormat.byTrackISSFormat)
    elif name == "Viewport":
        o.bwrite(b)
    else:
        o._write(b)
    return b.getvalue()


def real_nbytes(name, o):
    return o.nBytes


def real_build(name, stream, o):
    """decode one instance of layout ``name`` from ``stream``; ``o`` supplies the out-of-band arguments"""
    C = _cls(name)
    if name == "MarkerTrack":
        return C._build(stream, o.data.shape[0])
    if name == "EMGTrack":
        return C._build(stream, o.data.shape[0])
    if name == "ForceTorqueTrack":
        return C._build(stream, o.application_point.shape[0])
    if name == "PlatformData":
        from basictdf.tdfForcePlatformsData import ForcePlatformBlockFormat
        return C._build(stream, ForcePlatformBlockFormat.byTrackISSFormat, o.application_point.shape[0])
    if name == "Data2DPCK":
        return C._build(stream, o.data.shape[0], o.data.shape[1])
    if name == "Viewport":
        return C.bread(stream)
    if name in ("PlatformInfo", "SeelabCamera", "BTSCamera", "OpticalChannel", "Event"):
        return C._build(stream)
    return C._build(stream, _fmt_code(o))


def scramble(enc, dc, rng, mode="random"):
    out = bytearray(enc)
    for i, d in enumerate(dc):
        if d:
            out[i] = {"random": rng.randrange(256), "ff": 0xFF, "x81": 0x81, "cd": 0xCD}[mode] if mode != "random" else rng.randrange(256)
    return bytes(out)


def _fail(kind, name, msg, repro, **kw):
    d = dict(kind=kind, layout=name, message=msg, repro=repro)
    d.update(kw)
    return d


def describe(name, o):
    """short, reproducible description of an object: its reference encoding in hex (decodable by anyone)"""
    try:
        enc, _ = encode(name, o)
        return dict(layout=name, ref_encoding_hex=enc.hex() if len(enc) <= 4096 else enc[:4096].hex() + "...", nbytes=len(enc))
    except Exception as e:  # pragma: no cover
        return dict(layout=name, error=repr(e))


def check_write(name, o):
    """W_T and S_T: real _write == reference encoding; nBytes == its length"""
    fails = []
    try:
        ref, _ = encode(name, o)
    except EncodeError as e:
        return [_fail("harness", name, f"generator produced an invalid object: {e}", describe(name, o))]
    try:
        got = real_write(name, o)
    except Exception as e:
        return [_fail("W", name, f"_write raised {e!r} on a valid object", describe(name, o), tb=traceback.format_exc(limit=3))]
    if got != ref:
        i = next((k for k in range(min(len(got), len(ref))) if got[k] != ref[k]), min(len(got), len(ref)))
        fails.append(_fail("W", name, f"bytes written differ from the layout at offset {i} (wrote {len(got)} bytes, layout gives {len(ref)})",
                           describe(name, o), wrote_hex=got[max(0, i - 8):i + 16].hex(), layout_hex=ref[max(0, i - 8):i + 16].hex()))
    try:
        nb = real_nbytes(name, o)
        if nb != len(ref):
            fails.append(_fail("S", name, f"nBytes = {nb} but the layout encodes to {len(ref)} bytes (written: {len(got)})", describe(name, o)))
    except Exception as e:
        fails.append(_fail("S", name, f"nBytes raised {e!r}", describe(name, o)))
    return fails


def dirty_allocator(nbytes, value=7.0):
    """leave recognisable non-NaN floats in freed memory of about the size the decoder will ask for"""
    for k in (nbytes, nbytes):
        if k > 0:
            junk = np.full(max(k // 4, 1), value, dtype="<f4")
            del junk


def check_build(name, o, rng, modes=("zero", "random", "x81")):
    """B_T: decoding the layout bytes (with any don't-care bytes) consumes exactly them and yields equal content;
    re-encoding yields the canonical bytes (C01, C02, C06, C12)."""
    fails = []
    try:
        ref, dc = encode(name, o)
    except EncodeError as e:
        return [_fail("harness", name, f"generator produced an invalid object: {e}", describe(name, o))]
    tail = b"\xA5" * 7
    results = []
    for mode in modes:
        data = ref if mode == "zero" else scramble(ref, dc, rng, mode)
        s = io.BytesIO(data + tail)
        if hasattr(o, "data") and isinstance(getattr(o, "data"), np.ndarray) and o.data.dtype != object:
            dirty_allocator(o.data.nbytes)
        if name in ("PlatformData", "ForceTorqueTrack"):
            dirty_allocator(o.application_point.shape[0] * 24)
            dirty_allocator(o.application_point.shape[0] * 12)
        try:
            r = real_build(name, s, o)
        except Exception as e:
            fails.append(_fail("B", name, f"_build raised {e!r} on layout-conformant bytes (don't-care bytes: {mode})",
                               describe(name, o), dontcare=mode, tb=traceback.format_exc(limit=3)))
            continue
        if s.tell() != len(ref):
            fails.append(_fail("B.consumed", name, f"_build consumed {s.tell()} bytes, the encoding has {len(ref)} (don't-care bytes: {mode})",
                               describe(name, o), dontcare=mode))
        try:
            back, _ = encode(name, r)
            if back != ref:
                i = next((k for k in range(min(len(back), len(ref))) if back[k] != ref[k]), min(len(back), len(ref)))
                fails.append(_fail("B.content", name, f"decoded content differs from what was encoded (first difference at byte {i} of the "
                                   f"canonical encoding; don't-care bytes: {mode})", describe(name, o), dontcare=mode,
                                   decoded_hex=back[max(0, i - 8):i + 16].hex(), original_hex=ref[max(0, i - 8):i + 16].hex()))
        except EncodeError as e:
            fails.append(_fail("B.content", name, f"decoded object is not encodable by the layout: {e} (don't-care bytes: {mode})", describe(name, o), dontcare=mode))
        except Exception as e:
            fails.append(_fail("B.content", name, f"decoded object has an unexpected structure: {e!r} (don't-care bytes: {mode})", describe(name, o), dontcare=mode))
        try:
            again = real_write(name, r)
            if again != ref:
                fails.append(_fail("R3", name, f"re-encoding the decoded object gives {len(again)} bytes that differ from the original "
                                   f"{len(ref)} canonical bytes (don't-care bytes: {mode})", describe(name, o), dontcare=mode))
            nb = real_nbytes(name, r)
            if nb != len(ref):
                fails.append(_fail("S", name, f"decoded object reports nBytes = {nb}, encoding has {len(ref)}", describe(name, o), dontcare=mode))
        except Exception as e:
            fails.append(_fail("R3", name, f"decoded object cannot be written again: {e!r} (don't-care bytes: {mode})", describe(name, o), dontcare=mode))
        results.append(r)
    return fails


def check_gaps(name, o, rng):
    """C05: segment table written = maximal runs of present frames (independent parse); gap frames decode to NaN in every
    component, present frames keep their words; decoding twice gives identical arrays."""
    fails = []
    lead = {"MarkerTrack": "data", "EMGTrack": "data", "ForceTorqueTrack": "application_point", "PlatformData": "application_point"}[name]
    comps = {"MarkerTrack": ["data"], "EMGTrack": ["data"], "ForceTorqueTrack": ["application_point", "force", "torque"],
             "PlatformData": ["application_point", "force", "torque"]}[name]
    arr = np.asarray(getattr(o, lead))
    n = arr.shape[0]
    present = ~np.isnan(arr.reshape(n, -1)[:, 0])
    try:
        got = real_write(name, o)
    except Exception as e:
        return [_fail("C05.write", name, f"_write raised {e!r}", describe(name, o))]
    off = 0 if name == "PlatformData" else 256
    try:
        nseg = struct.unpack_from("<i", got, off)[0]
        table = [struct.unpack_from("<ii", got, off + 8 + 8 * k) for k in range(nseg)]
    except struct.error:
        return [_fail("C05.table", name, "segment table cannot be parsed from the written bytes", describe(name, o))]
    covered = np.zeros(n, dtype=bool)
    prev_end = -1
    for (st, ln) in table:
        if ln < 1 or st < 0 or st + ln > n:
            fails.append(_fail("C05.table", name, f"run ({st},{ln}) empty or outside the frame range 0..{n}", describe(name, o), table=table))
            break
        if st <= prev_end:
            fails.append(_fail("C05.table", name, f"runs not increasing / touching or overlapping: {table}", describe(name, o), table=table))
            break
        covered[st:st + ln] = True
        prev_end = st + ln
    else:
        if not np.array_equal(covered, present):
            fails.append(_fail("C05.table", name, f"runs {table} do not cover exactly the present frames {present.astype(int).tolist()}", describe(name, o), table=table))
    ref, dc = encode(name, o)
    outs = []
    for rep in range(2):
        for c in comps:
            dirty_allocator(np.asarray(getattr(o, c)).nbytes, 7.0 + rep)
        dirty_allocator(n * 24, 7.0 + rep)
        try:
            r = real_build(name, io.BytesIO(scramble(ref, dc, rng)), o)
        except Exception as e:
            fails.append(_fail("C05.decode", name, f"_build raised {e!r}", describe(name, o)))
            return fails
        outs.append(r)
        for c in comps:
            a = np.asarray(getattr(r, c)).reshape(n, -1)
            orig = np.asarray(getattr(o, c)).reshape(n, -1).astype("<f4")
            if not np.isnan(a[~present]).all():
                bad = a[~present][~np.isnan(a[~present])]
                fails.append(_fail("C05.gapnan", name, f"gap frames of '{c}' are not NaN after decoding (e.g. {bad[:3].tolist()})", describe(name, o)))
            if a[present].astype("<f4").tobytes() != orig[present].tobytes():
                fails.append(_fail("C05.present", name, f"present frames of '{c}' changed through encode/decode", describe(name, o)))
    if len(outs) == 2:
        for c in comps:
            if np.asarray(getattr(outs[0], c)).tobytes() != np.asarray(getattr(outs[1], c)).tobytes():
                fails.append(_fail("C05.determinism", name, f"two decodes of the same bytes differ in '{c}'", describe(name, o)))
    return fails


# ----------------------------------------------------------------------------- C13
def check_btsstring(size, s):
    """C13 for one (width, string): exact width, terminator, zero pad, round trip, or ValueError"""
    from basictdf.tdfTypes import BTSString
    fails = []
    try:
        enc = s.encode("cp1252")
        ok = "\x00" not in s and len(enc) < size
        encodable = True
    except UnicodeEncodeError:
        ok, encodable, enc = False, False, None
    rep = dict(size=size, string=s)
    import io as _io
    try:
        w = BTSString.write(size, s)
    except ValueError:
        if ok:
            fails.append(_fail("C13.refused", "BTSString", f"valid {len(s)}-char string refused for width {size}", rep))
        # the stream variant refuses as well and writes nothing before it does
        f = _io.BytesIO()
        f.write(b"PREFIX")
        try:
            BTSString.bwrite(f, size, s)
            fails.append(_fail("C13.accepted", "BTSString", f"bwrite accepted a string that write refuses for width {size}", rep))
        except Exception:
            pass
        if f.getvalue() != b"PREFIX":
            fails.append(_fail("C13.accepted", "BTSString", f"bwrite refused the string for width {size} but {len(f.getvalue()) - 6} bytes of it were written first", rep))
        return fails
    except Exception as e:
        return [_fail("C13.exc", "BTSString", f"write raised {e!r} (expected ValueError or success)", rep)]
    if not encodable or (encodable and len(enc) >= size):
        fails.append(_fail("C13.accepted", "BTSString", f"string that is too long / not encodable accepted for width {size}: wrote {len(w)} bytes, "
                           f"NUL present: {b'\\x00' in w}", rep))
        return fails
    if "\x00" in s:
        return fails  # embedded NUL: outside the round-trip guarantee; width still checked below
    if len(w) != size:
        fails.append(_fail("C13.width", "BTSString", f"wrote {len(w)} bytes for width {size}", rep))
    if w[:len(enc)] != enc or any(w[len(enc):]):
        fails.append(_fail("C13.bytes", "BTSString", "not text + NUL + zero padding", rep))
    try:
        f = _io.BytesIO()
        f.write(b"PREFIX")
        BTSString.bwrite(f, size, s)
        if f.getvalue() != b"PREFIX" + w:
            fails.append(_fail("C13.bytes", "BTSString", f"bwrite wrote {len(f.getvalue()) - 6} bytes that differ from write's {len(w)}", rep))
        f2 = _io.BytesIO(w + b"NEXT")
        if BTSString.bread(f2, size) != s or f2.read() != b"NEXT":
            fails.append(_fail("C13.roundtrip", "BTSString", "bread does not return the string / does not consume exactly the field", rep))
    except Exception as e:
        fails.append(_fail("C13.exc", "BTSString", f"bwrite / bread raised {e!r} on a valid string", rep))
    try:
        back = BTSString.read(size, w)
        if back != s:
            fails.append(_fail("C13.roundtrip", "BTSString", f"wrote {s!r} but read back {back!r}", rep))
        # garbage after the terminator must not matter
        g = w[:len(enc) + 1] + bytes((0x81 if i % 3 == 0 else 0xCD) for i in range(size - len(enc) - 1))
        back = BTSString.read(size, g)
        if back != s:
            fails.append(_fail("C13.tail", "BTSString", f"bytes after the terminator changed the result: {back!r}", rep))
    except Exception as e:
        fails.append(_fail("C13.read", "BTSString", f"read raised {e!r} on bytes produced by write", rep))
    return fails
