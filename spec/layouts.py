"""Normative TDF layout tables (DESIGN.md Appendix A) -- the oracle, written from the format, not from the writers.

Every layout is a function ``layout(v, E)`` that describes the byte sequence of one abstract value ``v``
by calling an *emitter* ``E``.  The same table is interpreted by two emitters:

* ``harness.refcodec.ConcE``  -- concrete: produces bytes (+ a don't-care mask) from plain Python / numpy data;
  this is the independent reference encoder used for replay, the bounded stand-ins and the BTS-capture clauses.
* ``pyvc.symlayout.SymE``     -- symbolic: produces stream atoms over z3 terms; this is ``enc_T`` in the contracts.

Only ``+`` and ``*`` are used on counts so that both ints and z3 terms work.  A view ``v`` exposes the stored
fields of the abstract value (DESIGN.md 3.2); sequences are given to ``E.fold``.

Emitter interface
    E.raw(bytes)                      literal bytes
    E.i2/u2/i4/u4(x)                  one little-endian integer
    E.f4(x) / E.f8(x)                 one float word
    E.i2s/u2s/i4s/u4s/f4s/f8s(n, seq) n consecutive items taken from the word sequence ``seq``
    E.str(width, s)                   fixed-width NUL-terminated cp1252 text, zero fill (tail after NUL don't-care on read)
    E.date(d)                         i4 seconds
    E.pad(nbytes)                     zeros on write, don't-care on read
    E.zeros(nbytes)                   zeros on write, and read as zero values
    E.fold(seq, fn)                   for every element x of seq, in order: fn(x, E)
    E.sub(name, x)                    nested layout ``name`` of x
    E.when(cond, fn)                  fn(E) only if cond
"""

SIGNATURE = bytes([0x82, 0x4B, 0x60, 0x41, 0xD3, 0x11, 0x84, 0xCA, 0x60, 0x00, 0xB6, 0xAC, 0x16, 0x68, 0x0C, 0x08])

LAYOUTS = {}


def layout(name):
    def deco(fn):
        LAYOUTS[name] = fn
        return fn
    return deco


# ------------------------------------------------------------------ container
@layout("Header")
def _header(v, E):
    E.raw(SIGNATURE)
    E.u4(v.version)
    E.i4(v.nEntries)
    E.pad(8)
    E.date(v.creation_date)
    E.date(v.last_modification_date)
    E.date(v.last_access_date)
    E.pad(20)


@layout("Entry")
def _entry(v, E):
    E.u4(v.type)
    E.u4(v.format)
    E.i4(v.offset)
    E.i4(v.size)
    E.date(v.creation_date)
    E.date(v.last_modification_date)
    E.date(v.last_access_date)
    E.pad(4)
    E.str(256, v.comment)


# ------------------------------------------------------------------ run-length coded tracks
def _runs_table(v, E):
    E.i4(v.nruns)
    E.pad(4)
    E.fold(v.runs, lambda r, E: (E.i4(r.start), E.i4(r.len)))


@layout("MarkerTrack")
def _marker_track(v, E):
    E.str(256, v.label)
    _runs_table(v, E)
    E.fold(v.runs, lambda r, E: E.f4s(3 * r.len, v.data.rows(r.start, r.len)))


@layout("EMGTrack")
def _emg_track(v, E):
    E.str(256, v.label)
    _runs_table(v, E)
    E.fold(v.runs, lambda r, E: E.f4s(r.len, v.data.rows(r.start, r.len)))


@layout("ForceTorqueTrack")
def _ft_track(v, E):
    E.str(256, v.label)
    _runs_table(v, E)

    def frame(f, E):
        E.f4s(3, v.application_point.row(f))
        E.f4s(3, v.force.row(f))
        E.f4s(3, v.torque.row(f))

    E.fold(v.runs, lambda r, E: E.fold(r.frames, frame))


@layout("PlatformData")
def _plat_data(v, E):
    _runs_table(v, E)

    def frame(f, E):
        E.f4s(2, v.application_point.row(f))
        E.f4s(3, v.force.row(f))
        E.f4s(1, v.torque.row(f))

    E.fold(v.runs, lambda r, E: E.fold(r.frames, frame))


# ------------------------------------------------------------------ blocks
@layout("Data3D")
def _data3d(v, E):
    E.i4(v.nFrames)
    E.i4(v.frequency)
    E.f4(v.startTime)
    E.u4(v.nTracks)
    E.f4s(3, v.volume)
    E.f4s(9, v.rotationMatrix)
    E.f4s(3, v.translationVector)
    E.u4(v.flag)

    def links(E):
        E.i4(v.nLinks)
        E.pad(4)
        E.fold(v.links, lambda l, E: (E.u4(l.track1), E.u4(l.track2)))

    E.when(v.has_links, links)
    E.fold(v.tracks, lambda t, E: E.sub("MarkerTrack", t))


@layout("EMG")
def _emg(v, E):
    E.i4(v.nSignals)
    E.i4(v.frequency)
    E.f4(v.startTime)
    E.i4(v.nSamples + (-49))
    E.i2s(v.nSignals, v.emgMap)
    E.fold(v.signals, lambda s, E: E.sub("EMGTrack", s))


@layout("ForceTorque3D")
def _ft3d(v, E):
    E.i4(v.nTracks)
    E.i4(v.frequency)
    E.f4(v.startTime)
    E.i4(v.nFrames)
    E.f4s(3, v.volume)
    E.f4s(9, v.rotationMatrix)
    E.f4s(3, v.translationVector)
    E.pad(4)
    E.fold(v.tracks, lambda t, E: E.sub("ForceTorqueTrack", t))


@layout("PlatformsData")
def _plats_data(v, E):
    E.i4(v.nPlatforms)
    E.i4(v.frequency)
    E.f4(v.start_time)
    E.i4(v.n_frames)
    E.u2s(v.nPlatforms, v.platMap)
    E.fold(v.platforms, lambda p, E: E.sub("PlatformData", p))


@layout("PlatformInfo")
def _plat_info(v, E):
    E.str(256, v.label)
    E.f4s(2, v.size)
    E.f4s(12, v.position)
    E.pad(256)


@layout("PlatformsCalibration")
def _plats_cal(v, E):
    E.i4(v.nPlatforms)
    E.pad(4)
    E.i2s(v.nPlatforms, v.platformMap)
    E.fold(v.platforms, lambda p, E: E.sub("PlatformInfo", p))


@layout("Data2DPCK")
def _data2d_pck(v, E):
    # counts are camera-major, points are frame-major
    E.fold(v.cameras, lambda c, E: E.fold(v.frames, lambda f, E: E.u2(v.count(f, c))))
    E.fold(v.frames, lambda f, E: E.fold(v.cameras, lambda c, E: E.f4s(2 * v.count(f, c), v.points(f, c))))


@layout("Data2D")
def _data2d(v, E):
    E.i4(v.nCams)
    E.i4(v.nFrames)
    E.i4(v.frequency)
    E.f4(v.startTime)
    E.u4(v.flags)
    E.u2s(v.nCams, v.camMap)
    E.sub("Data2DPCK", v.pck)


@layout("Viewport")
def _viewport(v, E):
    E.i4s(2, v.origin)
    E.i4s(2, v.size)


@layout("SeelabCamera")
def _seelab(v, E):
    E.f8s(9, v.rotation_matrix)
    E.f8s(3, v.translation_vector)
    E.f8s(2, v.focus)
    E.f8s(2, v.optical_center)
    E.f8s(2, v.radial_distortion)
    E.f8s(2, v.decentering)
    E.f8s(2, v.thin_prism)
    E.sub("Viewport", v.view_port)


@layout("BTSCamera")
def _btscam(v, E):
    E.f8s(9, v.rotation_matrix)
    E.f8s(3, v.translation_vector)
    E.f8s(2, v.focus)
    E.f8s(2, v.optical_center)
    E.f8s(v.nx, v.x_distortion_coefficients)   # up to 70 coefficients, the rest of the 70 slots is zero
    E.zeros(8 * (70 + (-1) * v.nx))
    E.f8s(v.ny, v.y_distortion_coefficients)
    E.zeros(8 * (70 + (-1) * v.ny))
    E.sub("Viewport", v.view_port)


@layout("Calibration")
def _calibration(v, E):
    E.i4(v.nCams)
    E.i4(v.distorsion_model)
    E.f4s(3, v.calibration_volume_size)
    E.f4s(9, v.calibration_volume_rotation_matrix)
    E.f4s(3, v.calibration_volume_translation_vector)
    E.i2s(v.nCams, v.cameras_calibration_map)
    E.when(v.is_seelab, lambda E: E.fold(v.cam_data, lambda c, E: E.sub("SeelabCamera", c)))
    E.when(v.is_bts, lambda E: E.fold(v.cam_data, lambda c, E: E.sub("BTSCamera", c)))


@layout("OpticalChannel")
def _opt_channel(v, E):
    E.i4(v.logical_camera_index)
    E.pad(4)
    E.str(32, v.lens_name)
    E.str(32, v.camera_type)
    E.str(32, v.camera_name)
    E.sub("Viewport", v.camera_viewport)


@layout("OpticalSetup")
def _opt_setup(v, E):
    E.i4(v.nChannels)
    E.pad(4)
    E.fold(v.channels, lambda c, E: E.sub("OpticalChannel", c))


@layout("Event")
def _event(v, E):
    E.str(256, v.label)
    E.u4(v.type)
    E.i4(v.nValues)
    E.f4s(v.nValues, v.values)


@layout("Events")
def _events(v, E):
    E.i4(v.nEvents)
    E.f4(v.start_time)
    E.fold(v.events, lambda e, E: E.sub("Event", e))


# which library class each layout describes, and the format codes under which it is writable
CLASS_OF = {
    "MarkerTrack": "basictdf.tdfData3D.MarkerTrack",
    "EMGTrack": "basictdf.tdfEMG.EMGTrack",
    "ForceTorqueTrack": "basictdf.tdfForce3D.ForceTorqueTrack",
    "PlatformData": "basictdf.tdfForcePlatformsData.ForcePlatformData",
    "PlatformInfo": "basictdf.tdfForcePlatformsCalibration.ForcePlatformInfo",
    "Data2DPCK": "basictdf.tdfData2D.Data2DPCK",
    "Viewport": "basictdf.tdfTypes.CameraViewPort",
    "SeelabCamera": "basictdf.tdfCalibrationData.SeelabCameraData",
    "BTSCamera": "basictdf.tdfCalibrationData.BTSCameraData",
    "OpticalChannel": "basictdf.tdfOpticalSystem.OpticalChannelData",
    "Event": "basictdf.tdfEvents.Event",
    "Data3D": "basictdf.tdfData3D.Data3D",
    "EMG": "basictdf.tdfEMG.EMG",
    "ForceTorque3D": "basictdf.tdfForce3D.ForceTorque3D",
    "PlatformsData": "basictdf.tdfForcePlatformsData.ForcePlatformsDataBlock",
    "PlatformsCalibration": "basictdf.tdfForcePlatformsCalibration.ForcePlatformsCalibrationDataBlock",
    "Data2D": "basictdf.tdfData2D.Data2D",
    "Calibration": "basictdf.tdfCalibrationData.CalibrationDataBlock",
    "OpticalSetup": "basictdf.tdfOpticalSystem.OpticalSetupBlock",
    "Events": "basictdf.tdfEvents.TemporalEventsData",
    "Entry": "basictdf.basictdf.TdfEntry",
}
BLOCK_LAYOUTS = ["Data3D", "EMG", "ForceTorque3D", "PlatformsData", "PlatformsCalibration", "Data2D",
                 "Calibration", "OpticalSetup", "Events"]
ITEM_LAYOUTS = ["MarkerTrack", "EMGTrack", "ForceTorqueTrack", "PlatformData", "PlatformInfo", "Data2DPCK",
                "Viewport", "SeelabCamera", "BTSCamera", "OpticalChannel", "Event"]
