#!/usr/bin/env python3
"""Apply every seeded change (seeded/<id>/patch.diff) to a scratch copy of /repo's HEAD, run the check of its property with
--src pointing at the copy, and record whether the check raised the alarm.  The scratch copies live under a fresh temp dir
(outside /repo and /verif), one per parallel lane, and are removed at the end.
Usage: selftest/run_seeded.py [-j LANES] [name-prefix ...] > seeded/RESULTS.txt"""
import glob
import json
import os
import shutil
import subprocess
import sys
import tempfile
import threading
import time

VERIF = os.path.dirname(os.path.dirname(os.path.abspath(__file__)))
args = sys.argv[1:]
lanes = 3
if args and args[0] == "-j":
    lanes = int(args[1])
    args = args[2:]
want = args
tmp = tempfile.mkdtemp(prefix="verif_seeded_")
todo = []
for d in sorted(glob.glob(os.path.join(VERIF, "seeded", "*"))):
    name = os.path.basename(d)
    if os.path.isdir(d) and os.path.exists(os.path.join(d, "meta.json")) and (not want or any(name.startswith(w) for w in want)):
        todo.append(d)
rows = []
lock = threading.Lock()
subprocess.run([os.path.join(VERIF, "check"), "--setup"], cwd=VERIF, capture_output=True)      # build the overlay venv once, before the lanes start


def lane(k):
    wt = os.path.join(tmp, f"wt{k}")
    subprocess.run(["git", "-C", "/repo", "worktree", "add", "-q", "--detach", wt, "HEAD"], check=True)
    try:
        while True:
            with lock:
                if not todo:
                    return
                d = todo.pop(0)
            name = os.path.basename(d)
            pid = json.load(open(os.path.join(d, "meta.json")))["property"]
            subprocess.run(["git", "-C", wt, "checkout", "-q", "--", "."], check=True)
            subprocess.run(["git", "-C", wt, "clean", "-fdq"], check=True)
            ap = subprocess.run(["git", "-C", wt, "apply", os.path.join(d, "patch.diff")], capture_output=True, text=True)
            if ap.returncode != 0:
                row = (name, pid, "PATCH-DOES-NOT-APPLY", 0, "")
            else:
                t0 = time.time()
                env = dict(os.environ, VERIF_WORKERS=os.environ.get("VERIF_WORKERS", str(max(4, 24 // lanes))))      # lanes share the 16 cores
                p = subprocess.run([os.path.join(VERIF, "check"), pid, "--src", os.path.join(wt, "src")], capture_output=True, text=True, cwd=VERIF, env=env)
                out = p.stdout
                viol = [l for l in out.splitlines() if l.startswith("VIOLATION")]
                summ = next((l for l in out.splitlines() if l.startswith(pid + ":")), "")
                row = (name, pid, {0: "MISSED", 1: "DETECTED", 2: "UNDECIDED", 3: "CHECKER-ERROR"}.get(p.returncode, str(p.returncode)), round(time.time() - t0),
                       (viol[0][:160] if viol else "") + " | " + summ[:90])
            with lock:
                rows.append(row)
                print(*row, flush=True)
    finally:
        subprocess.run(["git", "-C", "/repo", "worktree", "remove", "--force", wt])


try:
    ts = [threading.Thread(target=lane, args=(k,)) for k in range(lanes)]
    for t in ts:
        t.start()
    for t in ts:
        t.join()
finally:
    shutil.rmtree(tmp, ignore_errors=True)
    subprocess.run(["git", "-C", "/repo", "worktree", "prune"])
det = sum(1 for r in rows if r[2] == "DETECTED")
print(f"# {det} of {len(rows)} seeded changes detected")
sys.exit(0 if det == len(rows) else 1)
