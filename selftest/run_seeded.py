#!/usr/bin/env python3
"""Apply every seeded change (seeded/<id>/patch.diff) to a scratch copy of /repo's HEAD, run the check of its property with
--src pointing at the copy, and record whether the check raised the alarm.  The scratch copy lives under a fresh temp dir
(outside /repo and /verif) and is removed at the end.  Usage: selftest/run_seeded.py [name-prefix ...] > seeded/RESULTS.txt"""
import glob
import json
import os
import shutil
import subprocess
import sys
import tempfile
import time

VERIF = os.path.dirname(os.path.dirname(os.path.abspath(__file__)))
want = sys.argv[1:]
tmp = tempfile.mkdtemp(prefix="verif_seeded_")
wt = os.path.join(tmp, "wt")
subprocess.run(["git", "-C", "/repo", "worktree", "add", "-q", "--detach", wt, "HEAD"], check=True)
rows = []
try:
    for d in sorted(glob.glob(os.path.join(VERIF, "seeded", "*"))):
        name = os.path.basename(d)
        if not os.path.isdir(d) or (want and not any(name.startswith(w) for w in want)):
            continue
        meta = json.load(open(os.path.join(d, "meta.json")))
        pid = meta["property"]
        subprocess.run(["git", "-C", wt, "checkout", "-q", "--", "."], check=True)
        ap = subprocess.run(["git", "-C", wt, "apply", os.path.join(d, "patch.diff")], capture_output=True, text=True)
        if ap.returncode != 0:
            rows.append((name, pid, "PATCH-DOES-NOT-APPLY", 0, ""))
            continue
        t0 = time.time()
        p = subprocess.run([os.path.join(VERIF, "check"), pid, "--src", os.path.join(wt, "src")], capture_output=True, text=True, cwd=VERIF)
        out = p.stdout
        viol = [l for l in out.splitlines() if l.startswith("VIOLATION")]
        summ = next((l for l in out.splitlines() if l.startswith(pid + ":")), "")
        rows.append((name, pid, {0: "MISSED", 1: "DETECTED", 2: "UNDECIDED", 3: "CHECKER-ERROR"}.get(p.returncode, str(p.returncode)), round(time.time() - t0), (viol[0][:160] if viol else "") + " | " + summ[:90]))
        print(*rows[-1], flush=True)
finally:
    subprocess.run(["git", "-C", "/repo", "worktree", "remove", "--force", wt])
    shutil.rmtree(tmp, ignore_errors=True)
det = sum(1 for r in rows if r[2] == "DETECTED")
print(f"# {det} of {len(rows)} seeded changes detected")
