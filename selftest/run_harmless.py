#!/usr/bin/env python3
"""False-alarm test: apply every harmless edit (selftest/harmless/<id>/patch.diff) to a scratch copy of /repo's HEAD and run the
checks of the properties it touches; every check must exit 0.  Usage: selftest/run_harmless.py [prefix ...]"""
import glob, json, os, shutil, subprocess, sys, tempfile, time
VERIF = os.path.dirname(os.path.dirname(os.path.abspath(__file__)))
want = sys.argv[1:]
tmp = tempfile.mkdtemp(prefix="verif_harmless_")
wt = os.path.join(tmp, "wt")
subprocess.run(["git", "-C", "/repo", "worktree", "add", "-q", "--detach", wt, "HEAD"], check=True)
bad = 0
subprocess.run([os.path.join(VERIF, "check"), "--setup"], cwd=VERIF, capture_output=True)
try:
    for d in sorted(glob.glob(os.path.join(VERIF, "selftest", "harmless", "*"))):
        name = os.path.basename(d)
        if want and not any(name.startswith(w) for w in want):
            continue
        meta = json.load(open(os.path.join(d, "meta.json")))
        subprocess.run(["git", "-C", wt, "checkout", "-q", "--", "."], check=True)
        if subprocess.run(["git", "-C", wt, "apply", os.path.join(d, "patch.diff")]).returncode != 0:
            print(name, "PATCH-DOES-NOT-APPLY"); bad += 1; continue
        for pid in meta["properties"]:
            t0 = time.time()
            p = subprocess.run([os.path.join(VERIF, "check"), pid, "--src", os.path.join(wt, "src")], capture_output=True, text=True, cwd=VERIF)
            und = sum(1 for l in p.stdout.splitlines() if l.startswith("UNDECIDED"))
            summ = next((l for l in p.stdout.splitlines() if l.startswith(pid + ":")), "")
            print(name, pid, "exit", p.returncode, f"undecided-lines={und}", f"{round(time.time() - t0)}s", "|", summ[:100], flush=True)
            if p.returncode != 0:
                bad += 1
                print("   ", "\n    ".join(l[:200] for l in p.stdout.splitlines() if l.startswith(("VIOLATION", "CHECKER"))))
finally:
    subprocess.run(["git", "-C", "/repo", "worktree", "remove", "--force", wt])
    shutil.rmtree(tmp, ignore_errors=True)
print(f"# {bad} false alarms")
sys.exit(1 if bad else 0)
